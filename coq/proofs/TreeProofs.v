(* Structural invariants of the imported tree (C02): node ids are positions in the store, parents precede their
   children, a node is registered exactly in the children list of its parent, existing nodes never change their
   identity / stage / token / parent / header / last spine operator when later cells are imported.
   All by induction over the cells and rows of the importer model, for every text. *)
From Coq Require Import List String Ascii Bool ZArith Lia.
From KV Require Import Strings CatGen Cat SpineImpGen SpineImp Token KernTok Importer ImporterProofs.
Import ListNotations.
Open Scope list_scope.

(* ---- list helpers *)
Lemma nth_update_nth_eq {A} (f : A -> A) d : forall (l : list A) n, n < List.length l -> nth n (update_nth n f l) d = f (nth n l d).
Proof. induction l as [|x l IH]; intros n H; simpl in *; [lia|]. destruct n; simpl; [reflexivity | apply IH; lia]. Qed.

Lemma nth_update_nth_neq {A} (f : A -> A) d : forall (l : list A) n m, n <> m -> nth m (update_nth n f l) d = nth m l d.
Proof.
  induction l as [|x l IH]; intros n m H; simpl; [destruct n; reflexivity|].
  destruct n, m; simpl; try reflexivity; try lia. apply IH. lia.
Qed.

Lemma update_nth_length {A} (f : A -> A) : forall (l : list A) n, List.length (update_nth n f l) = List.length l.
Proof. induction l as [|x l IH]; intros n; destruct n; simpl; auto. Qed.

(* the part of a node that never changes once it exists *)
Definition core (n : node) := (n_id n, n_stage n, n_tok n, n_parent n, n_lastop n).

(* ---- the invariant *)
Record tree_ok (d : doc) : Prop := {
  t_nonempty : 0 < List.length (d_nodes d);
  t_ids : forall i, i < List.length (d_nodes d) -> n_id (get_node d i) = i;
  t_parent : forall i p, i < List.length (d_nodes d) -> n_parent (get_node d i) = Some p ->
               p < i /\ In i (n_children (get_node d p));
  t_children : forall p c, p < List.length (d_nodes d) -> In c (n_children (get_node d p)) ->
               c < List.length (d_nodes d) /\ n_parent (get_node d c) = Some p;
  t_root : n_parent (get_node d 0) = None }.

Lemma empty_tree_ok : tree_ok empty_doc.
Proof.
  constructor; simpl.
  - lia.
  - intros i H. assert (i = 0) by lia. subst. reflexivity.
  - intros i p H. assert (i = 0) by lia. subst. discriminate.
  - intros p c H. assert (p = 0) by lia. subst. simpl. tauto.
  - reflexivity.
Qed.

(* setters that do not touch identity / parents / children *)
Definition same_links (d d' : doc) : Prop :=
  List.length (d_nodes d') = List.length (d_nodes d) /\
  forall i, core (get_node d' i) = core (get_node d i) /\ n_children (get_node d' i) = n_children (get_node d i).

Lemma same_links_refl d : same_links d d.
Proof. split; [reflexivity | intros i; split; reflexivity]. Qed.

Lemma same_links_trans a b c : same_links a b -> same_links b c -> same_links a c.
Proof.
  intros [L1 H1] [L2 H2]. split; [congruence|]. intros i. destruct (H1 i) as [A1 B1], (H2 i) as [A2 B2]. split; congruence.
Qed.

Lemma tree_ok_same_links d d' : same_links d d' -> tree_ok d -> tree_ok d'.
Proof.
  intros [L H] T. assert (Hc : forall i, n_id (get_node d' i) = n_id (get_node d i) /\ n_parent (get_node d' i) = n_parent (get_node d i)
                                  /\ n_children (get_node d' i) = n_children (get_node d i)).
  { intros i. destruct (H i) as [A B]. unfold core in A. injection A as A1 A2 A3 A4 A5. repeat split; assumption. }
  constructor.
  - rewrite L. apply T.
  - intros i Hi. rewrite L in Hi. destruct (Hc i) as [-> _]. now apply T.
  - intros i p Hi Hp. rewrite L in Hi. destruct (Hc i) as [_ [E _]]. rewrite E in Hp.
    destruct (t_parent d T i p Hi Hp) as [P1 P2]. split; [exact P1|]. destruct (Hc p) as [_ [_ ->]]. exact P2.
  - intros p c Hp Hin. rewrite L in *. destruct (Hc p) as [_ [_ E]]. rewrite E in Hin.
    destruct (t_children d T p c Hp Hin) as [C1 C2]. split; [exact C1|]. destruct (Hc c) as [_ [-> _]]. exact C2.
  - destruct (Hc 0) as [_ [-> _]]. apply T.
Qed.

Lemma update_self_links (d : doc) id (f : node -> node) :
  (forall n, core (f n) = core n /\ n_children (f n) = n_children n) ->
  same_links d (set_nodes d (update_nth id f (d_nodes d))).
Proof.
  intros Hf. split; [simpl; apply update_nth_length|]. intros i. unfold get_node. simpl.
  destruct (Nat.eq_dec id i) as [->|Hne].
  - destruct (Nat.lt_ge_cases i (List.length (d_nodes d))) as [Hl|Hl].
    + rewrite nth_update_nth_eq by exact Hl. apply Hf.
    + rewrite !nth_overflow; [split; reflexivity | exact Hl | rewrite update_nth_length; exact Hl].
  - rewrite nth_update_nth_neq by exact Hne. split; reflexivity.
Qed.

Lemma links_set_header_self d id : same_links d (set_header_self d id).
Proof. apply update_self_links. intros n. split; reflexivity. Qed.
Lemma links_sig_update d id c : same_links d (sig_update d id c).
Proof. apply update_self_links. intros n. split; reflexivity. Qed.
Lemma links_set_cancelled d a b : same_links d (set_cancelled d a b).
Proof. split; [reflexivity | intros i; split; reflexivity]. Qed.
Lemma links_add_error d id : same_links d (add_error d id).
Proof. split; [reflexivity | intros i; split; reflexivity]. Qed.
Lemma links_set_header_stage d st : same_links d (set_header_stage d st).
Proof. split; [reflexivity | intros i; split; reflexivity]. Qed.
Lemma links_push_mst d st : same_links d (push_mst d st).
Proof. split; [reflexivity | intros i; split; reflexivity]. Qed.

(* ---- add_node *)
Lemma add_node_spec d st p t lo sg h d' id : tree_ok d -> p < List.length (d_nodes d) ->
  add_node d st p t lo sg h = IOk (d', id) ->
  id = List.length (d_nodes d) /\ List.length (d_nodes d') = S id /\ tree_ok d' /\
  n_parent (get_node d' id) = Some p /\ n_tok (get_node d' id) = Some t /\ n_header (get_node d' id) = h /\
  n_stage (get_node d' id) = st /\ n_lastop (get_node d' id) = lo /\
  (forall i, i < id -> core (get_node d' i) = core (get_node d i) /\ n_header (get_node d' i) = n_header (get_node d i)).
Proof.
  intros T Hp. unfold add_node. destruct (Nat.ltb (List.length (d_stages d)) st); [discriminate|].
  intros H. injection H as <- <-. set (id := List.length (d_nodes d)).
  set (upd := fun q : node => {| n_id := n_id q; n_stage := n_stage q; n_tok := n_tok q; n_parent := n_parent q; n_header := n_header q;
                                 n_lastop := n_lastop q; n_sigs := n_sigs q; n_children := n_children q ++ [id] |}).
  set (nd := {| n_id := id; n_stage := st; n_tok := Some t; n_parent := Some p; n_header := h; n_lastop := lo; n_sigs := sg; n_children := [] |}).
  assert (Hlen : List.length (update_nth p upd (d_nodes d) ++ [nd]) = S id)
    by (rewrite app_length, update_nth_length; simpl; unfold id; lia).
  assert (Hnew : nth id (update_nth p upd (d_nodes d) ++ [nd]) root_node = nd).
  { rewrite app_nth2; rewrite update_nth_length; [|unfold id; lia]. unfold id. now rewrite Nat.sub_diag. }
  assert (Hold : forall i, i < id -> nth i (update_nth p upd (d_nodes d) ++ [nd]) root_node
                                    = if Nat.eqb i p then upd (nth i (d_nodes d) root_node) else nth i (d_nodes d) root_node).
  { intros i Hi. rewrite app_nth1 by (rewrite update_nth_length; exact Hi).
    destruct (Nat.eqb i p) eqn:E.
    - apply Nat.eqb_eq in E. subst. apply nth_update_nth_eq. exact Hi.
    - apply Nat.eqb_neq in E. apply nth_update_nth_neq. lia. }
  split; [reflexivity|]. cbn [set_stages set_nodes d_nodes]. split; [exact Hlen|].
  unfold get_node. cbn [set_stages set_nodes d_nodes]. rewrite Hnew. cbn [n_parent n_tok n_header n_stage n_lastop nd].
  split; [|split; [reflexivity|]; split; [reflexivity|]; split; [reflexivity|]; split; [reflexivity|]; split; [reflexivity|]].
  - (* tree_ok *)
    constructor; cbn [set_stages set_nodes d_nodes].
    + rewrite Hlen. lia.
    + intros i Hi. rewrite Hlen in Hi. unfold get_node. cbn [set_stages set_nodes d_nodes].
      destruct (Nat.eq_dec i id) as [->|Hne]; [rewrite Hnew; reflexivity|].
      rewrite Hold by lia. destruct (Nat.eqb i p); [cbn [n_id upd] | ]; apply (t_ids d T); unfold id in *; lia.
    + intros i q Hi Hq. rewrite Hlen in Hi. unfold get_node in *. cbn [set_stages set_nodes d_nodes] in *.
      destruct (Nat.eq_dec i id) as [->|Hne].
      * rewrite Hnew in Hq. cbn [n_parent nd] in Hq. injection Hq as <-. split; [exact Hp|].
        rewrite Hold by exact Hp. rewrite Nat.eqb_refl. cbn [n_children upd]. apply in_app_iff. right. now left.
      * assert (Hi' : i < id) by lia. rewrite Hold in Hq by exact Hi'.
        assert (Hq' : n_parent (nth i (d_nodes d) root_node) = Some q) by (destruct (Nat.eqb i p); exact Hq).
        destruct (t_parent d T i q Hi' Hq') as [Q1 Q2]. split; [exact Q1|].
        rewrite Hold by lia. destruct (Nat.eqb q p); [cbn [n_children upd]; apply in_app_iff; left|]; exact Q2.
    + intros q c Hq Hin. rewrite Hlen in *. unfold get_node in *. cbn [set_stages set_nodes d_nodes] in *.
      destruct (Nat.eq_dec q id) as [->|Hne].
      * rewrite Hnew in Hin. contradiction.
      * assert (Hq' : q < id) by lia. rewrite Hold in Hin by exact Hq'.
        destruct (Nat.eqb q p) eqn:E.
        -- apply Nat.eqb_eq in E. subst q. cbn [n_children upd] in Hin. apply in_app_iff in Hin. destruct Hin as [Hin|[<-|[]]].
           ++ destruct (t_children d T p c Hp Hin) as [C1 C2]. split; [unfold id in *; lia|].
              rewrite Hold by exact C1. destruct (Nat.eqb c p); exact C2.
           ++ split; [lia|]. rewrite Hnew. reflexivity.
        -- destruct (t_children d T q c Hq' Hin) as [C1 C2]. split; [unfold id in *; lia|].
           rewrite Hold by exact C1. destruct (Nat.eqb c p); exact C2.
    + unfold get_node. cbn [set_stages set_nodes d_nodes]. rewrite Hold by (apply T).
      destruct (Nat.eqb 0 p); [cbn [n_parent upd]|]; apply (t_root d T).
  - intros i Hi. rewrite Hold by exact Hi. destruct (Nat.eqb i p); split; reflexivity.
Qed.
