(* C04: the basic encoding is the extended one with the signifiers removed NOTE BY NOTE - no note of a chord is lost.
   String-level theorem about BekernTokenizer's reduction, for any number of notes. *)
From Coq Require Import List String Ascii Bool ZArith Lia.
From KV Require Import Strings CatGen Cat Token Tokenizers StringProofs ExportFixedProofs.
Import ListNotations.
Open Scope list_scope.

Definition space : ascii := " "%char.

(* one exported note: its duration/pitch part P, and its signifier part D ("" = none) *)
Definition note_text (pd : string * string) : string :=
  if String.eqb (snd pd) "" then fst pd else (fst pd ++ decoration_separator ++ snd pd)%string.

Definition note_clean (pd : string * string) : Prop :=
  avoids mid0 (fst pd) = true /\ avoids space (fst pd) = true /\ avoids space (snd pd) = true /\
  endswith token_separator (fst pd) = false.

Lemma deco_sep_no_space : avoids space decoration_separator = true. Proof. reflexivity. Qed.

Lemma note_text_no_space pd : note_clean pd -> avoids space (note_text pd) = true.
Proof.
  intros [_ [H1 [H2 _]]]. unfold note_text. destruct (String.eqb (snd pd) ""); [exact H1|].
  rewrite avoids_app3, H1, H2, deco_sep_no_space. reflexivity.
Qed.

Lemma reduce_note_text pd : note_clean pd -> reduce_note (note_text pd) = fst pd.
Proof.
  intros [Hm [_ [_ He]]]. unfold reduce_note, note_text. destruct decoration_separator_val as [p Ep].
  destruct (String.eqb (snd pd) "").
  - rewrite Ep. pose proof (split_str_none mid0 p (fst pd) Hm) as X. rewrite X. now rewrite He.
  - rewrite Ep. pose proof (split_str_first mid0 p (fst pd) (snd pd) Hm) as H.
    remember (match split_str (String mid0 p) (fst pd ++ String mid0 p ++ snd pd) with x :: _ => x | [] => ""%string end) as r eqn:Er.
    rewrite H in Er. subst r. now rewrite He.
Qed.

(* does the joined text contain the decoration separator?  yes iff some note has signifiers *)
Lemma contains_sep_iff : forall notes, Forall note_clean notes -> notes <> [] ->
  contains_str decoration_separator (join " " (map note_text notes)) = existsb (fun pd => negb (String.eqb (snd pd) "")) notes.
Proof.
  destruct decoration_separator_val as [p Ep]. rewrite Ep.
  assert (Hsp : avoids mid0 " "%string = true) by reflexivity.
  (* generalised: a clean prefix [pre] in front *)
  assert (G : forall notes pre, Forall note_clean notes -> notes <> [] -> avoids mid0 pre = true ->
              contains_str (String mid0 p) (pre ++ join " " (map note_text notes)) = existsb (fun pd => negb (String.eqb (snd pd) "")) notes).
  { induction notes as [|pd notes IH]; intros pre Hc Hne Hpre; [contradiction|].
    inversion Hc as [|? ? Hpd Hc']; subst. destruct Hpd as [Hm [Hs1 [Hs2 He]]].
    cbn [map existsb]. unfold note_text at 1. rewrite Ep. destruct (String.eqb (snd pd) "") eqn:Ed; cbn [negb orb].
    - destruct notes as [|pd2 notes'].
      + cbn [map join existsb]. apply contains_str_none. now rewrite avoids_app, Hpre, Hm.
      + change (join " " (fst pd :: map note_text (pd2 :: notes'))) with (fst pd ++ " " ++ join " " (map note_text (pd2 :: notes')))%string.
        rewrite <- !StringProofs.append_assoc. rewrite StringProofs.append_assoc with (a := pre).
        rewrite <- (IH ((pre ++ fst pd) ++ " ")%string Hc' ltac:(discriminate)); [rewrite !StringProofs.append_assoc; reflexivity|].
        now rewrite !avoids_app, Hpre, Hm, Hsp.
    - destruct notes as [|pd2 notes']; cbn [map join].
      + rewrite <- StringProofs.append_assoc. apply contains_str_app. now rewrite avoids_app, Hpre, Hm.
      + change (join " " ((fst pd ++ String mid0 p ++ snd pd)%string :: map note_text (pd2 :: notes')))
          with ((fst pd ++ String mid0 p ++ snd pd) ++ " " ++ join " " (map note_text (pd2 :: notes')))%string.
        rewrite !StringProofs.append_assoc. rewrite <- StringProofs.append_assoc. apply contains_str_app. now rewrite avoids_app, Hpre, Hm. }
  intros notes Hc Hne. exact (G notes ""%string Hc Hne eq_refl).
Qed.

(* BekernTokenizer's reduction of a whole cell: every note keeps its place and loses only its signifiers *)
Theorem bekern_note_by_note notes : Forall note_clean notes -> notes <> [] ->
  bekern_of_ekern (join " " (map note_text notes)) = join " " (map fst notes).
Proof.
  intros Hc Hne. unfold bekern_of_ekern. rewrite (contains_sep_iff notes Hc Hne).
  destruct (existsb (fun pd => negb (String.eqb (snd pd) "")) notes) eqn:E; cbn [negb].
  - assert (X : split_char space (join (String space "") (map note_text notes)) = map note_text notes).
    { apply split_join_char.
      + destruct notes; [contradiction | discriminate].
      + rewrite forallb_forall. intros x Hx. apply in_map_iff in Hx. destruct Hx as [pd [<- Hin]]. apply note_text_no_space.
        rewrite Forall_forall in Hc. apply Hc, Hin. }
    unfold space in X. rewrite X.
    rewrite map_map. f_equal. apply map_ext_in. intros pd Hin. apply reduce_note_text. rewrite Forall_forall in Hc. apply Hc, Hin.
  - f_equal. apply map_ext_in. intros pd Hin. unfold note_text.
    assert (Hd : negb (String.eqb (snd pd) "") = false).
    { destruct (negb (String.eqb (snd pd) "")) eqn:E2; [|reflexivity]. exfalso.
      assert (existsb (fun pd => negb (String.eqb (snd pd) "")) notes = true) by (apply existsb_exists; exists pd; split; assumption). congruence. }
    apply negb_false_iff in Hd. now rewrite Hd.
Qed.

Corollary bekern_keeps_every_note notes : Forall note_clean notes -> notes <> [] ->
  List.length (split_char space (bekern_of_ekern (join " " (map note_text notes)))) = List.length notes.
Proof.
  intros Hc Hne. rewrite (bekern_note_by_note notes Hc Hne).
  assert (X : split_char space (join (String space "") (map fst notes)) = map fst notes).
  { apply split_join_char.
    - destruct notes; [contradiction | discriminate].
    - rewrite forallb_forall. intros x Hx. apply in_map_iff in Hx. destruct Hx as [pd [<- Hin]].
      rewrite Forall_forall in Hc. destruct (Hc pd Hin) as [_ [H _]]. exact H. }
  unfold space in *. rewrite X. now rewrite map_length.
Qed.

Example bekern_example :
  bekern_of_ekern ("4@c@#" ++ decoration_separator ++ "L 4@e 4@g" ++ decoration_separator ++ "J")%string = "4@c@# 4@e 4@g"%string.
Proof. vm_compute. reflexivity. Qed.

(* ------------------------------------------------------------------ token level: NoteRestToken / ChordToken *)
From Coq Require Import Permutation.
From KV Require Import TokenProofs.

Section TokenLevel.
  Variable keep : cat -> bool.

  Definition kept_pd (n : noterest) := stable_sort sub_cat_leb (filter (fun s => keep (st_cat s)) (nr_pd n)).
  Definition kept_deco (n : noterest) := stable_sort sub_full_leb (filter (fun s => keep (st_cat s)) (nr_deco n)).
  Definition pd_text (n : noterest) : string := join token_separator (map st_enc (kept_pd n)).
  Definition deco_text (n : noterest) : string := join decoration_separator (map st_enc (kept_deco n)).
  (* what one note exports: (duration and pitch part, signifier part), or the placeholder when nothing is kept *)
  Definition note_pair (n : noterest) : string * string :=
    if String.eqb (pd_text n) "" && String.eqb (deco_text n) "" then (empty_token, ""%string) else (pd_text n, deco_text n).

  Lemma app_sep_nonempty a b : String.eqb (a ++ decoration_separator ++ b)%string "" = false.
  Proof. destruct decoration_separator_val as [p ->]. destruct a; reflexivity. Qed.

  Lemma export_noterest_text n : export_noterest keep None n = Ok (note_text (note_pair n)).
  Proof.
    unfold export_noterest, note_pair, note_text. fold (kept_pd n) (kept_deco n). fold (pd_text n) (deco_text n). cbv zeta.
    destruct (String.eqb (deco_text n) "") eqn:Ed.
    - rewrite andb_true_r. destruct (String.eqb (pd_text n) "") eqn:Ep; cbn [fst snd]; [reflexivity|]. now rewrite Ed.
    - rewrite andb_false_r. cbn [fst snd]. rewrite Ed, app_sep_nonempty. reflexivity.
  Qed.

  Lemma note_text_nonempty n : note_text (note_pair n) <> ""%string.
  Proof.
    unfold note_pair, note_text.
    destruct (String.eqb (deco_text n) "") eqn:Ed.
    - rewrite andb_true_r. destruct (String.eqb (pd_text n) "") eqn:Ep; cbn [fst snd]; [discriminate|].
      rewrite Ed. intros H. rewrite H in Ep. discriminate.
    - rewrite andb_false_r. cbn [fst snd]. rewrite Ed. intros H. pose proof (app_sep_nonempty (pd_text n) (deco_text n)) as G. rewrite H in G. discriminate.
  Qed.

  (* ChordToken.export accumulates note by note *)
  Fixpoint sp (r : list string) : string := match r with [] => ""%string | x :: r' => (" " ++ x ++ sp r')%string end.

  Lemma join_sp : forall r t, join " " (t :: r) = (t ++ sp r)%string.
  Proof.
    induction r as [|x r IH]; intros t; [cbn; now rewrite StringProofs.append_nil_r|].
    change (join " " (t :: x :: r)) with (t ++ " " ++ join " " (x :: r))%string. rewrite IH. reflexivity.
  Qed.

  Lemma append_nonempty (a b : string) : b <> ""%string -> String.eqb (a ++ b) "" = false.
  Proof. intros H. destruct a; [|reflexivity]. destruct b; [contradiction | reflexivity]. Qed.

  Lemma chord_notes_acc : forall notes acc, acc <> ""%string ->
    export_chord_notes keep None acc notes = Ok (acc ++ sp (map (fun n => note_text (note_pair n)) notes))%string.
  Proof.
    induction notes as [|n notes IH]; intros acc Hacc; cbn [export_chord_notes map sp]; [now rewrite StringProofs.append_nil_r|].
    rewrite export_noterest_text. destruct (String.eqb acc "") eqn:E; [apply String.eqb_eq in E; contradiction|].
    rewrite IH.
    - now rewrite !StringProofs.append_assoc.
    - intros H. pose proof (append_nonempty (acc ++ " ") (note_text (note_pair n)) (note_text_nonempty n)) as G. rewrite H in G. discriminate.
  Qed.

  Theorem chord_export_joined notes : notes <> [] ->
    export_chord_notes keep None "" notes = Ok (join " " (map (fun n => note_text (note_pair n)) notes)).
  Proof.
    destruct notes as [|n notes]; [contradiction|]. intros _. cbn [export_chord_notes map]. rewrite export_noterest_text.
    cbn [String.eqb append]. rewrite chord_notes_acc by apply note_text_nonempty. now rewrite join_sp.
  Qed.
End TokenLevel.

(* cleanliness of the exported parts follows from cleanliness of the sub-token texts *)
Fixpoint last_is (c : ascii) (s : string) : bool :=
  match s with
  | EmptyString => false
  | String a EmptyString => Ascii.eqb a c
  | String _ s' => last_is c s'
  end.

Lemma endswith_last c s : endswith (String c "") s = last_is c s.
Proof.
  induction s as [|a s IH]; [reflexivity|].
  destruct s as [|b s'].
  - unfold endswith. cbn. destruct (Ascii.eqb a c); reflexivity.
  - change (last_is c (String a (String b s'))) with (last_is c (String b s')). rewrite <- IH. unfold endswith.
    cbn [String.length Nat.leb Nat.sub andb drop]. rewrite Nat.sub_0_r. reflexivity.
Qed.

Lemma last_is_app c : forall a x, x <> ""%string -> last_is c (a ++ x) = last_is c x.
Proof.
  induction a as [|y a IH]; intros x Hx; [reflexivity|].
  cbn [append]. specialize (IH x Hx). destruct (a ++ x)%string eqn:E.
  - destruct a; [cbn in E; subst; contradiction | discriminate].
  - cbn [last_is]. exact IH.
Qed.

Lemma last_is_avoids c : forall x, avoids c x = true -> last_is c x = false.
Proof.
  induction x as [|a x IH]; intros H; [reflexivity|]. cbn [avoids] in H. apply andb_true_iff in H. destruct H as [Ha Hx].
  apply negb_true_iff in Ha. destruct x; [exact Ha | apply IH, Hx].
Qed.

Lemma join_last_part sep : forall l, l <> [] -> exists a x, join sep l = (a ++ x)%string /\ In x l.
Proof.
  induction l as [|y l IH]; intros H; [contradiction|]. destruct l as [|z l'].
  - exists ""%string, y. split; [reflexivity | now left].
  - destruct (IH ltac:(discriminate)) as [a [x [E Hin]]]. exists (y ++ sep ++ a)%string, x. split; [|now right].
    change (join sep (y :: z :: l')) with (y ++ sep ++ join sep (z :: l'))%string. rewrite E. now rewrite !StringProofs.append_assoc.
Qed.

Definition pd_sub_ok (s : subtoken) : bool :=
  avoids mid0 (st_enc s) && avoids space (st_enc s) && avoids amp (st_enc s) && negb (String.eqb (st_enc s) "").
Definition note_subs_ok (n : noterest) : bool :=
  forallb pd_sub_ok (nr_pd n) && forallb (fun s => avoids space (st_enc s)) (nr_deco n).

Lemma forallb_perm {A} (p : A -> bool) l l' : Permutation l l' -> forallb p l' = true -> forallb p l = true.
Proof. intros P. rewrite !forallb_forall. intros H x Hx. apply H. eapply Permutation_in; eassumption. Qed.

Lemma forallb_filter {A} (p q : A -> bool) l : forallb p l = true -> forallb p (filter q l) = true.
Proof. rewrite !forallb_forall. intros H x Hx. apply filter_In in Hx. apply H, Hx. Qed.

Lemma forallb_map_enc (p : string -> bool) l : forallb (fun s => p (st_enc s)) l = true -> forallb p (map st_enc l) = true.
Proof. rewrite !forallb_forall. intros H x Hx. apply in_map_iff in Hx. destruct Hx as [s [<- Hs]]. apply H, Hs. Qed.

Theorem note_pair_clean keep n : note_subs_ok n = true -> note_clean (note_pair keep n).
Proof.
  unfold note_subs_ok. intros H. apply andb_true_iff in H. destruct H as [Hpd Hde].
  assert (Kpd : forallb pd_sub_ok (kept_pd keep n) = true).
  { unfold kept_pd. eapply forallb_perm; [apply stable_sort_perm|]. apply forallb_filter, Hpd. }
  assert (Kde : forallb (fun s => avoids space (st_enc s)) (kept_deco keep n) = true).
  { unfold kept_deco. eapply forallb_perm; [apply stable_sort_perm|]. apply forallb_filter, Hde. }
  assert (P : forall c, (forall s, pd_sub_ok s = true -> avoids c (st_enc s) = true) -> avoids c token_separator = true -> avoids c (pd_text keep n) = true).
  { intros c Hc Hs. unfold pd_text. apply avoids_join; [exact Hs|]. apply forallb_map_enc. rewrite forallb_forall in *. intros s Hin. apply Hc, Kpd, Hin. }
  unfold note_pair. destruct (String.eqb (pd_text keep n) "" && String.eqb (deco_text keep n) "").
  { repeat split; reflexivity. }
  cbn [fst snd]. repeat split.
  - apply P; [|reflexivity]. intros s Hs. unfold pd_sub_ok in Hs. repeat (apply andb_true_iff in Hs; destruct Hs as [Hs ?]). exact Hs.
  - apply P; [|reflexivity]. intros s Hs. unfold pd_sub_ok in Hs. repeat (apply andb_true_iff in Hs; destruct Hs as [Hs ?]). assumption.
  - unfold deco_text. apply avoids_join; [reflexivity|]. apply forallb_map_enc, Kde.
  - rewrite token_separator_val. rewrite endswith_last. unfold pd_text.
    destruct (map st_enc (kept_pd keep n)) as [|e es] eqn:E; [reflexivity|].
    destruct (join_last_part token_separator (e :: es) ltac:(discriminate)) as [a [x [Ej Hin]]]. rewrite Ej.
    rewrite <- E in Hin. apply in_map_iff in Hin. destruct Hin as [s [<- Hs]].
    rewrite forallb_forall in Kpd. specialize (Kpd s Hs). unfold pd_sub_ok in Kpd.
    apply andb_true_iff in Kpd. destruct Kpd as [K1 Kne]. apply andb_true_iff in K1. destruct K1 as [_ Kamp].
    apply negb_true_iff in Kne. cbn [fst]. rewrite last_is_app; [apply last_is_avoids, Kamp|]. intros H0. rewrite H0 in Kne. discriminate.
Qed.

(* C04: for every chord and every category selection, the extended encoding is the notes joined by single spaces, and
   the basic encoding is the same list of notes, each reduced to its duration and pitch part: no note is lost or moved *)
Theorem chord_bekern_note_by_note cats enc notes : notes <> [] -> forallb note_subs_ok notes = true ->
  ekern_tokenize cats (TChord enc notes) = Ok (join " " (map (fun n => note_text (note_pair (keep_of cats) n)) notes)) /\
  bekern_tokenize cats (TChord enc notes) = Ok (join " " (map (fun n => fst (note_pair (keep_of cats) n)) notes)).
Proof.
  intros Hne Hok. unfold bekern_tokenize, ekern_tokenize. cbn [export_token]. rewrite (chord_export_joined (keep_of cats) notes Hne).
  split; [reflexivity|]. cbn [map_res]. f_equal.
  rewrite <- (map_map (note_pair (keep_of cats)) note_text), <- (map_map (note_pair (keep_of cats)) fst).
  apply bekern_note_by_note.
  - rewrite Forall_forall. intros pd Hin. apply in_map_iff in Hin. destruct Hin as [n [<- Hn]]. apply note_pair_clean.
    rewrite forallb_forall in Hok. apply Hok, Hn.
  - destruct notes; [contradiction | discriminate].
Qed.

(* and for a single note or rest *)
Theorem note_bekern cats n : note_subs_ok n = true ->
  ekern_tokenize cats (TNoteRest n) = Ok (note_text (note_pair (keep_of cats) n)) /\
  bekern_tokenize cats (TNoteRest n) = Ok (fst (note_pair (keep_of cats) n)).
Proof.
  intros Hok. unfold bekern_tokenize, ekern_tokenize. cbn [export_token]. rewrite export_noterest_text. split; [reflexivity|].
  cbn [map_res]. f_equal. apply (bekern_note_by_note [note_pair (keep_of cats) n]); [|discriminate].
  constructor; [apply note_pair_clean, Hok | constructor].
Qed.

(* non-vacuity: a three-note chord whose middle note has no signifier, exported with every category *)
Example chord_example :
  let mk e c := {| st_enc := e; st_cat := c |} in
  let n1 := {| nr_enc := "4c#L"; nr_pd := [mk "4" DURATION; mk "c" PITCH; mk "#" ALTERATION]; nr_deco := [mk "L" DECORATION] |} in
  let n2 := {| nr_enc := "4e"; nr_pd := [mk "4" DURATION; mk "e" PITCH]; nr_deco := [] |} in
  let n3 := {| nr_enc := "4gJ;"; nr_pd := [mk "4" DURATION; mk "g" PITCH]; nr_deco := [mk "J" DECORATION; mk ";" DECORATION] |} in
  forallb note_subs_ok [n1; n2; n3] = true /\
  bekern_tokenize all_cats (TChord "4c#L 4e 4gJ;" [n1; n2; n3]) = Ok "4@c@# 4@e 4@g"%string.
Proof. vm_compute. split; reflexivity. Qed.
