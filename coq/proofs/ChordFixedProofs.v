(* C01 / C03 for CHORDS: the kern export of the canonical chord token is its canonical text, hence
   export o import o export = export for chords of any number of notes. *)
From Coq Require Import List String Ascii Bool Sorted Arith Lia.
From KV Require Import Strings CatGen Cat Token Tokenizers KernTok CanonProofs ScanProofs StringProofs ExportFixedProofs ChordProofs.
Import ListNotations.
Open Scope list_scope.

(* ---- replace distributes over a blank: no occurrence of a blank-free pattern straddles it *)
Lemma replace_unfold p0 pat' c s :
  replace (String p0 pat') "" (String c s) =
  if startswith (String p0 pat') (String c s) then replace (String p0 pat') "" (drop (String.length (String p0 pat')) (String c s))
  else String c (replace (String p0 pat') "" s).
Proof.
  unfold replace at 1. cbn [replace_fuel].
  destruct (startswith (String p0 pat') (String c s)) eqn:E.
  - cbn [append]. pose proof (drop_shorter p0 pat' c s) as Hd. unfold replace.
    apply (replace_fuel_enough p0 pat' (String.length (String c s))); cbn [String.length] in *; lia.
  - reflexivity.
Qed.

Lemma replace_nil p0 pat' : replace (String p0 pat') "" "" = ""%string.
Proof. reflexivity. Qed.

Lemma startswith_over_blank p : avoids " " p = true -> forall a b,
  startswith p (a ++ String " " b) = startswith p a.
Proof.
  induction p as [|x p IH]; intros Hp a b; [destruct a; reflexivity|].
  cbn [avoids] in Hp. apply andb_true_iff in Hp. destruct Hp as [Hx Hp]. apply negb_true_iff in Hx.
  destruct a as [|y a]; cbn [append startswith].
  - rewrite Hx. reflexivity.
  - destruct (Ascii.eqb x y); [apply IH; exact Hp | reflexivity].
Qed.

Lemma startswith_length p : forall s, startswith p s = true -> String.length p <= String.length s.
Proof.
  induction p as [|x p IH]; intros s H; [simpl; lia|]. destruct s as [|y s]; [discriminate|].
  cbn [startswith] in H. destruct (Ascii.eqb x y); [|discriminate]. specialize (IH s H). simpl. lia.
Qed.

Lemma drop_app n : forall a b, n <= String.length a -> drop n (a ++ b) = (drop n a ++ b)%string.
Proof.
  induction n as [|n IH]; intros a b H; [destruct a; reflexivity|].
  destruct a as [|x a]; [simpl in H; lia|]. cbn [append drop]. apply IH. simpl in H. lia.
Qed.

Lemma drop_length_le n : forall s, String.length (drop n s) <= String.length s.
Proof. induction n as [|n IH]; intros s; [destruct s; simpl; lia|]. destruct s as [|c s]; [simpl; lia|]. cbn [drop String.length]. specialize (IH s). lia. Qed.

Lemma replace_over_blank p0 pat' : avoids " " (String p0 pat') = true -> forall n a b, String.length a <= n ->
  replace (String p0 pat') "" (a ++ String " " b) = (replace (String p0 pat') "" a ++ String " " (replace (String p0 pat') "" b))%string.
Proof.
  intros Hp. induction n as [|n IH]; intros a b Hn.
  - destruct a as [|y a]; [|simpl in Hn; lia]. cbn [append]. rewrite replace_unfold.
    cbn [avoids] in Hp. apply andb_true_iff in Hp. destruct Hp as [Hx _]. apply negb_true_iff in Hx.
    cbn [startswith]. rewrite Hx. reflexivity.
  - destruct a as [|y a].
    + cbn [append]. rewrite replace_unfold.
      cbn [avoids] in Hp. apply andb_true_iff in Hp. destruct Hp as [Hx _]. apply negb_true_iff in Hx.
      cbn [startswith]. rewrite Hx. reflexivity.
    + change ((String y a ++ String " " b)%string) with (String y (a ++ String " " b)).
      rewrite (replace_unfold p0 pat' y (a ++ String " " b)), (replace_unfold p0 pat' y a).
      change (String y (a ++ String " " b)) with ((String y a ++ String " " b)%string).
      rewrite (startswith_over_blank _ Hp (String y a) b).
      destruct (startswith (String p0 pat') (String y a)) eqn:E.
      * rewrite drop_app by (apply startswith_length; exact E).
        apply IH. pose proof (drop_shorter p0 pat' y a) as Hd. cbn [String.length] in *. lia.
      * cbn [append]. f_equal. apply IH. cbn [String.length] in Hn. lia.
Qed.

Lemma replace_join_blank p0 pat' : avoids " " (String p0 pat') = true -> forall parts,
  replace (String p0 pat') "" (join " " parts) = join " " (map (replace (String p0 pat') "") parts).
Proof.
  intros Hp. induction parts as [|x parts IH]; [reflexivity|].
  destruct parts as [|y parts']; [reflexivity|].
  change (join " " (x :: y :: parts')) with ((x ++ String " " (join " " (y :: parts')))%string).
  rewrite (replace_over_blank p0 pat' Hp (String.length x) x _ (le_n _)). rewrite IH. reflexivity.
Qed.

Lemma strip_separators_join parts : strip_separators (join " " parts) = join " " (map strip_separators parts).
Proof.
  unfold strip_separators. unfold token_separator, decoration_separator.
  rewrite replace_join_blank by reflexivity. rewrite replace_join_blank by reflexivity. now rewrite map_map.
Qed.

(* ---- the chord export: the notes' exports joined by single blanks *)
Fixpoint tails (ss : list string) : string :=
  match ss with [] => ""%string | s :: r => (" " ++ s ++ tails r)%string end.

Lemma join_tails : forall ss s, join " " (s :: ss) = (s ++ tails ss)%string.
Proof.
  induction ss as [|x ss IH]; intros s; [cbn; now rewrite StringProofs.append_nil_r|].
  change (join " " (s :: x :: ss)) with ((s ++ " " ++ join " " (x :: ss))%string). rewrite IH. reflexivity.
Qed.

Lemma export_chord_notes_acc keep conv : forall notes ss acc, acc <> ""%string ->
  Forall2 (fun n s => export_noterest keep conv n = Ok s) notes ss ->
  export_chord_notes keep conv acc notes = Ok (acc ++ tails ss)%string.
Proof.
  induction notes as [|n notes IH]; intros ss acc Hacc F; inversion F as [|? s ? ss' Hn F']; subst.
  - cbn. now rewrite StringProofs.append_nil_r.
  - cbn [export_chord_notes]. rewrite Hn. destruct (String.eqb acc "") eqn:E; [apply String.eqb_eq in E; contradiction|].
    rewrite (IH ss' ((acc ++ " ") ++ s)%string).
    + cbn [tails]. rewrite !StringProofs.append_assoc. reflexivity.
    + destruct acc; [contradiction | discriminate].
    + exact F'.
Qed.

Lemma export_chord_notes_join keep conv notes ss : notes <> [] -> Forall (fun s => s <> ""%string) ss ->
  Forall2 (fun n s => export_noterest keep conv n = Ok s) notes ss ->
  export_chord_notes keep conv "" notes = Ok (join " " ss).
Proof.
  intros Hne Hs F. destruct notes as [|n notes]; [contradiction|]. inversion F as [|? s ? ss' Hn F']; subst.
  cbn [export_chord_notes]. rewrite Hn. cbn [String.eqb append].
  inversion Hs as [|? ? Hs1 _]; subst.
  rewrite (export_chord_notes_acc keep conv notes ss' s Hs1 F'). now rewrite join_tails.
Qed.

Lemma str_print_chord : forall notes, str (print_chord notes) = join " " (map (fun n => str (print_note n)) notes).
Proof.
  induction notes as [|n notes IH]; [reflexivity|]. destruct notes as [|m notes']; [reflexivity|].
  change (print_chord (n :: m :: notes')) with (print_note n ++ " "%char :: print_chord (m :: notes')).
  rewrite str_app. change (str (" "%char :: print_chord (m :: notes'))) with (String " " (str (print_chord (m :: notes')))).
  rewrite IH. reflexivity.
Qed.

(* the kern export of the canonical chord token is its canonical text *)
Theorem kern_export_canonical_chord D notes : notes <> [] -> chord_ok D notes -> Forall canonical_order notes ->
  kern_tokenize all_cats (TChord (str (print_chord notes)) (map (chord_note D) notes)) = Ok (str (print_chord notes)).
Proof.
  intros Hne Hok Hcan.
  assert (F : exists ss, Forall2 (fun n s => export_noterest (keep_of all_cats) None n = Ok s) (map (chord_note D) notes) ss /\
                         map strip_separators ss = map (fun n => str (print_note n)) notes /\ Forall (fun s => s <> ""%string) ss).
  { clear Hne. induction notes as [|n notes IH]; [exists []; repeat split; constructor|].
    inversion Hok as [|? ? [Hn [HD _]] Hok']; subst. inversion Hcan as [|? ? Hc Hcan']; subst.
    destruct (IH Hok' Hcan') as [ss [F [E S]]].
    pose proof (kern_export_canonical n Hn Hc) as K. unfold kern_tokenize, ekern_tokenize, note_token in K. cbn [export_token] in K.
    change (chord_note (nt_decos n) n) with {| nr_enc := str (print_note n); nr_pd := note_pd n; nr_deco := map deco_of (nt_decos n) |}.
    destruct (export_noterest (keep_of all_cats) None {| nr_enc := str (print_note n); nr_pd := note_pd n; nr_deco := map deco_of (nt_decos n) |}) as [s|e] eqn:Es;
      [|discriminate]. cbn [map_res] in K. injection K as K.
    exists (s :: ss). split; [constructor; [exact Es | exact F]|]. split; [cbn [map]; now rewrite K, E|].
    constructor; [|exact S]. intros ->. destruct (print_note_head n Hn) as [c [r [Ep _]]]. rewrite Ep in K. discriminate. }
  destruct F as [ss [F [E S]]].
  unfold kern_tokenize, ekern_tokenize. cbn [export_token].
  rewrite (export_chord_notes_join _ _ _ ss); [| destruct notes; [contradiction | discriminate] | exact S | exact F].
  cbn [map_res]. rewrite strip_separators_join, E, str_print_chord. reflexivity.
Qed.

(* export o import o export = export for chords *)
Theorem chord_export_fixed_point D notes : 2 <= List.length notes -> chord_ok D notes -> Forall canonical_order notes ->
  match kern_recognise (str (print_chord notes)) with
  | KTok t => kern_tokenize all_cats t = Ok (str (print_chord notes))
  | KOut => False
  end.
Proof.
  intros Hlen Hok Hcan. rewrite (recognise_print_chord D notes Hlen Hok).
  apply kern_export_canonical_chord; [intros ->; simpl in Hlen; lia | exact Hok | exact Hcan].
Qed.

Example chord_fixed_point_example :
  let mk p o := {| nt_dur := Some {| cd_num := ["4"%char]; cd_frac := None; cd_dots := 0; cd_grace := "" |}; nt_pitch := p; nt_oct := o;
                   nt_core := []; nt_disp := []; nt_decos := chars_of_string ";L" |} in
  let notes := [mk "c"%char 0; mk "e"%char 1; mk "g"%char 0] in
  chord_ok (chars_of_string ";L") notes /\ Forall canonical_order notes /\
  str (print_chord notes) = "4c;L 4ee;L 4g;L"%string /\
  match kern_recognise "4c;L 4ee;L 4g;L" with KTok t => kern_tokenize all_cats t | KOut => Err "out" end = Ok "4c;L 4ee;L 4g;L"%string.
Proof.
  split; [|split; [|split; [reflexivity | vm_compute; reflexivity]]].
  - repeat constructor; try reflexivity; try (cbn; intuition discriminate); try (eexists; reflexivity); try discriminate.
  - repeat constructor.
Qed.
