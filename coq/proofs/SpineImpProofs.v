(* Proofs for C18 (and the importer part of C12) over the regenerated importer tables. *)
From Coq Require Import List String Ascii Bool ZArith Lia.
From KV Require Import Strings CatGen Cat CatProofs SpineImpGen SpineImp.
Import ListNotations.
Open Scope string_scope.

(* what the table must say about a lossless wrapper for a header whose own category is [own] *)
Definition kind_ok (own : cat) (k : imp_kind) : bool :=
  match k with
  | KWrap fe acc neg fr =>
    neg && cat_beq fe own && cat_beq fr own
    && forallb (fun c => mem c acc) shared_cats
    && forallb (fun c => mem c shared_cats || cat_beq c own) acc
  | _ => false
  end.

Ltac walk h :=
  repeat match goal with
         | |- context [String.eqb h ?x] =>
           let E := fresh "E" in
           destruct (String.eqb h x) eqn:E; [apply String.eqb_eq in E; subst h |]
         end.

(* every claimed header - known or not - resolves to such a wrapper: re-checked against the source tables *)
Lemma claimed_kind_ok h : claimed h = true -> kind_ok (own_cat h) (kind_of_header h) = true.
Proof.
  unfold claimed, mem_str, own_cat, kind_of_header, create_importer, importer_dispatch, assoc_str.
  walk h; vm_compute; intros H; try discriminate H; reflexivity.
Qed.

Section Facts.
  Variable T : Type.
  Variable tcat : T -> cat.
  Variable recog : string -> option T.
  Notation import_token := (import_token T tcat recog).

  Definition shared (c : cat) : Prop := exists p, In p shared_cats /\ desc p c.

  Lemma accepted_by_spec acc c : accepted_by acc c = true <-> exists p, In p acc /\ desc p c.
  Proof.
    unfold accepted_by. rewrite existsb_exists. split; intros [p [H1 H2]]; exists p; split; auto; now apply is_child_spec.
  Qed.

  Lemma unfold_ok own k : kind_ok own k = true ->
    exists acc, k = KWrap own acc true own /\ (forall c, In c shared_cats -> In c acc)
                /\ (forall c, In c acc -> In c shared_cats \/ c = own).
  Proof.
    destruct k as [f| | |c|fe acc neg fr]; cbn [kind_ok]; try discriminate. intros H.
    apply andb_true_iff in H. destruct H as [H H5].
    apply andb_true_iff in H. destruct H as [H H4].
    apply andb_true_iff in H. destruct H as [H H3].
    apply andb_true_iff in H. destruct H as [H1 H2].
    subst neg. apply cat_beq_true in H2. apply cat_beq_true in H3. subst fe fr.
    exists acc. split; [reflexivity|]. split.
    - intros c Hc. rewrite forallb_forall in H4. apply mem_In. apply H4. exact Hc.
    - intros c Hc. rewrite forallb_forall in H5. specialize (H5 c Hc). apply orb_true_iff in H5.
      destruct H5 as [H5|H5]; [left; now apply mem_In | right; now apply cat_beq_true].
  Qed.

  Lemma nonempty_eqb s : s <> "" -> String.eqb s "" = false.
  Proof. intros H. destruct (String.eqb s "") eqn:E; [apply String.eqb_eq in E; contradiction | reflexivity]. Qed.

  (* import never fails *)
  Theorem import_total h s : claimed h = true -> s <> "" -> forall e, import_token h s <> RErr e.
  Proof.
    intros Hc Hs e. destruct (unfold_ok _ _ (claimed_kind_ok h Hc)) as [acc [Hk _]].
    unfold SpineImp.import_token. rewrite Hk. simpl. rewrite (nonempty_eqb s Hs).
    destruct (recog s) as [t|]; [destruct (negb _)|]; discriminate.
  Qed.

  (* shared structure is recognised exactly as in a **kern spine: the very same token *)
  Theorem import_shared h s t : claimed h = true -> s <> "" -> recog s = Some t -> shared (tcat t) ->
    import_token h s = RKept t.
  Proof.
    intros Hc Hs Hr [p [Hp Hd]]. destruct (unfold_ok _ _ (claimed_kind_ok h Hc)) as [acc [Hk [Hin _]]].
    unfold SpineImp.import_token. rewrite Hk. simpl. rewrite (nonempty_eqb s Hs), Hr.
    assert (A : accepted_by acc (tcat t) = true) by (apply accepted_by_spec; exists p; split; auto).
    rewrite A. reflexivity.
  Qed.

  (* everything else becomes a token with the verbatim text and the type's own category *)
  Theorem import_other h s : claimed h = true -> s <> "" ->
    (recog s = None \/ exists t, recog s = Some t /\ ~ shared (tcat t) /\ ~ desc (own_cat h) (tcat t)) ->
    import_token h s = RSimple s (own_cat h).
  Proof.
    intros Hc Hs Hr. destruct (unfold_ok _ _ (claimed_kind_ok h Hc)) as [acc [Hk [_ Hsub]]].
    unfold SpineImp.import_token. rewrite Hk. simpl. rewrite (nonempty_eqb s Hs).
    destruct Hr as [Hr | [t [Hr [Hn1 Hn2]]]]; rewrite Hr; [reflexivity|].
    assert (A : accepted_by acc (tcat t) = false).
    { destruct (accepted_by acc (tcat t)) eqn:E; [|reflexivity]. apply accepted_by_spec in E.
      destruct E as [p [Hp Hd]]. destruct (Hsub p Hp) as [Hs'|Ho].
      - exfalso. apply Hn1. exists p. split; assumption.
      - subst. contradiction. }
    rewrite A. reflexivity.
  Qed.

  (* hence the outcome is a function of the kern outcome alone, identical under every claimed header
     up to the own category: barlines are detected identically *)
  Theorem import_same_structure h1 h2 s t : claimed h1 = true -> claimed h2 = true -> s <> "" ->
    recog s = Some t -> shared (tcat t) -> import_token h1 s = import_token h2 s.
  Proof. intros. rewrite (import_shared h1 s t), (import_shared h2 s t); auto. Qed.
End Facts.

Example claimed_examples : claimed "**text" = true /\ claimed "**silbe" = true /\ claimed "**kern" = false.
Proof. vm_compute. repeat split. Qed.

(* ------------------------------------------------------------------ C12: history independence *)
Section History.
  Variable T : Type.
  Variable recog : string -> option T * nat.

  (* with a fresh listener per call the outcome for a cell never depends on the listener state left by earlier cells *)
  Lemma kern_import_fresh st s : fst (kern_import T recog true st s) = fst (kern_import T recog true 0 s).
  Proof. unfold kern_import. destruct (String.eqb s ""); [reflexivity|]. destruct (recog s) as [p e]. reflexivity. Qed.

  Theorem history_independent : forall h st,
    run_history T recog true st h = map (fun s => fst (kern_import T recog true 0 s)) h.
  Proof.
    induction h as [|s h IH]; intros st; simpl; [reflexivity|].
    destruct (kern_import T recog true st s) as [o st'] eqn:E. rewrite IH. f_equal.
    rewrite <- (kern_import_fresh st s), E. reflexivity.
  Qed.

  (* hence any two orders of the same cells give every cell the same outcome *)
  Corollary outcome_of_cell_fixed h1 h2 st1 st2 s :
    nth (List.length h1) (run_history T recog true st1 (h1 ++ [s])) (RErr "") =
    nth (List.length h2) (run_history T recog true st2 (h2 ++ [s])) (RErr "").
  Proof.
    rewrite !history_independent, !map_app. simpl.
    set (f := fun s0 => fst (kern_import T recog true 0 s0)).
    assert (G : forall h, nth (List.length h) (map f h ++ [f s]) (RErr "") = f s).
    { intros h. rewrite app_nth2; rewrite map_length; [|lia]. now rewrite Nat.sub_diag. }
    now rewrite !G.
  Qed.

  (* a well-formed cell (no syntax error reported, parse succeeds) is returned as its token; anything else raises *)
  Theorem outcome_is_recogniser s t : s <> "" -> recog s = (Some t, 0) -> forall st, fst (kern_import T recog true st s) = RKept t.
  Proof.
    intros Hs Hr st. unfold kern_import. rewrite (nonempty_eqb s Hs), Hr. reflexivity.
  Qed.
  Theorem malformed_raises s : (fst (recog s) = None \/ 0 < snd (recog s)) -> forall st, exists e, fst (kern_import T recog true st s) = RErr e.
  Proof.
    intros H st. unfold kern_import. destruct (String.eqb s ""); [eexists; reflexivity|].
    destruct (recog s) as [p e]. simpl in H. destruct p as [t|]; [|eexists; reflexivity].
    destruct H as [H|H]; [discriminate|]. simpl.
    destruct (Nat.ltb 0 e) eqn:E; [eexists; reflexivity|]. apply Nat.ltb_ge in E. lia.
  Qed.
End History.

(* the importer in the source tree does replace its listener at every call (flag regenerated from the source) *)
Lemma kern_listener_is_fresh : kern_fresh_flag = Some true.
Proof. vm_compute. reflexivity. Qed.

(* with a listener kept for the importer's lifetime the property fails: witness history *)
Definition demo_recog (s : string) : option nat * nat := if String.eqb s "4zz" then (Some 0, 1) else (Some 1, 0).
Lemma sticky_listener_refuted :
  run_history nat demo_recog false 0 ["4zz"; "4c"] <> map (fun s => fst (kern_import nat demo_recog false 0 s)) ["4zz"; "4c"].
Proof. vm_compute. discriminate. Qed.
