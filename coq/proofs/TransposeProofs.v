(* C09 - transposition is exact interval arithmetic.  All octaves in Z. *)
From Coq Require Import List String Ascii Bool ZArith Lia.
From KV Require Import Strings PitchGen IntervalGen Pitch PitchSpec.
Import ListNotations.
Open Scope string_scope.
Open Scope Z_scope.

(* ------------------------------------------------------------------ *)
(* Octave shift lemmas                                                 *)
(* ------------------------------------------------------------------ *)
Definition shift (o : Z) (p : apitch) : apitch := {| ap_name := ap_name p; ap_octave := ap_octave p + o |}.

Lemma base_pos : 0 < chroma_base. Proof. reflexivity. Qed.

Lemma to_transposed_shift n o k d :
  to_transposed {| ap_name := n; ap_octave := o |} k d =
  option_map (shift o) (to_transposed {| ap_name := n; ap_octave := 0 |} k d).
Proof.
  unfold to_transposed, get_chroma; cbn [ap_name ap_octave].
  destruct (assoc_str n chromas) as [c|]; [|reflexivity].
  set (delta := match d with Up => k | Down => - k end).
  assert (Hb := base_pos).
  replace (chroma_base * o + c + delta) with (c + delta + o * chroma_base) by ring.
  replace (chroma_base * 0 + c + delta) with (c + delta) by ring.
  rewrite Z.mod_add by lia. rewrite Z.div_add by lia.
  destruct (chroma_by_value ((c + delta) mod chroma_base)) as [nm|]; [|reflexivity].
  unfold mk_pitch. destruct (set_name nm); [|reflexivity].
  cbn. unfold shift; cbn. reflexivity.
Qed.

Lemma spec_transpose_shift l a o dsz ssz d :
  let r0 := spec_transpose l a 0 dsz ssz d in
  spec_transpose l a o dsz ssz d =
  {| sr_letter := sr_letter r0; sr_alt := sr_alt r0; sr_octave := sr_octave r0 + o |}.
Proof.
  cbv zeta. unfold spec_transpose; cbn [sr_letter sr_alt sr_octave].
  replace (7 * o + l + sgn d * dsz) with (l + sgn d * dsz + o * 7) by ring.
  replace (7 * 0 + l + sgn d * dsz) with (l + sgn d * dsz) by ring.
  rewrite Z.mod_add by lia. rewrite Z.div_add by lia.
  f_equal. ring.
Qed.

(* ------------------------------------------------------------------ *)
(* The finite residue sweep (octave 0): 7 letters x 5 alterations x    *)
(* all table intervals x 2 directions, decided by computation.         *)
(* ------------------------------------------------------------------ *)
Definition apitch_eqb (p q : apitch) : bool :=
  String.eqb (ap_name p) (ap_name q) && Z.eqb (ap_octave p) (ap_octave q).
Lemma apitch_eqb_eq p q : apitch_eqb p q = true -> p = q.
Proof.
  destruct p, q; unfold apitch_eqb; cbn. intros H. apply andb_prop in H as [H1 H2].
  apply String.eqb_eq in H1. apply Z.eqb_eq in H2. congruence.
Qed.


Definition check_case (l a : Z) (iv : Z * string) (d : direction) : bool :=
  match interval_spec (snd iv) with
  | None => false
  | Some (dsz, ssz) =>
    let r := spec_transpose l a 0 dsz ssz d in
    if spellable r then
      match to_transposed (spec_pitch l a 0) (fst iv) d with
      | Some q => apitch_eqb q (spec_pitch (sr_letter r) (sr_alt r) (sr_octave r))
      | None => false
      end
    else true
  end.

Definition sweep : bool :=
  forallb (fun l => forallb (fun a => forallb (fun iv => forallb (fun d => check_case l a iv d) dirs)
                                              intervals) alts_z) letters_z.

Lemma sweep_ok : sweep = true.
Proof. vm_compute. reflexivity. Qed.

Theorem exact_all_octaves :
  forall l a o iv dsz ssz d,
    In l letters_z -> In a alts_z -> In iv intervals ->
    interval_spec (snd iv) = Some (dsz, ssz) ->
    let r := spec_transpose l a o dsz ssz d in
    spellable r = true ->
    to_transposed (spec_pitch l a o) (fst iv) d =
      Some (spec_pitch (sr_letter r) (sr_alt r) (sr_octave r)).
Proof.
  intros l a o iv dsz ssz d Hl Ha Hiv Hspec r Hsp.
  assert (Hd : In d dirs) by (destruct d; cbn; auto).
  pose proof sweep_ok as Hs. unfold sweep in Hs.
  rewrite forallb_forall in Hs. specialize (Hs l Hl).
  rewrite forallb_forall in Hs. specialize (Hs a Ha).
  rewrite forallb_forall in Hs. specialize (Hs iv Hiv).
  rewrite forallb_forall in Hs. specialize (Hs d Hd).
  unfold check_case in Hs. rewrite Hspec in Hs.
  subst r. rewrite spec_transpose_shift in Hsp |- *. cbv zeta in *.
  set (r0 := spec_transpose l a 0 dsz ssz d) in *.
  unfold spellable in Hsp. cbn [sr_alt sr_letter sr_octave] in *.
  unfold spellable in Hs. rewrite Hsp in Hs.
  unfold spec_pitch at 1. rewrite to_transposed_shift.
  fold (spec_pitch l a 0).
  destruct (to_transposed (spec_pitch l a 0) (fst iv) d) as [q|]; [|discriminate].
  apply apitch_eqb_eq in Hs. subst q. cbn. unfold shift, spec_pitch; cbn. reflexivity.
Qed.

(* every table interval has a quality/number reading and the table is well formed *)
Lemma intervals_all_parse : forallb (fun iv => match interval_spec (snd iv) with Some _ => true | None => false end) intervals = true.
Proof. vm_compute. reflexivity. Qed.

(* the base-40 key of every interval agrees with the (diatonic, semitone) reading:
   k = 40-residue of a pitch moved by d letters and s semitones from C *)
Definition names_distinct : bool :=
  Nat.eqb (List.length (dedup_str (map snd intervals))) (List.length intervals).
Lemma interval_names_distinct : names_distinct = true.
Proof. vm_compute. reflexivity. Qed.

(* ------------------------------------------------------------------ *)
(* Table facts used by the algebraic laws                              *)
(* ------------------------------------------------------------------ *)
Definition opt_str_eqb (a b : option string) : bool :=
  match a, b with Some x, Some y => String.eqb x y | None, None => true | _, _ => false end.

Definition table_row_ok (nv : string * Z) : bool :=
  let '(n, v) := nv in
  (0 <=? v) && (v <? chroma_base) && opt_str_eqb (chroma_by_value v) (Some n) && opt_str_eqb (set_name n) (Some n).
Lemma table_rows_ok : forallb table_row_ok chromas = true.
Proof. vm_compute. reflexivity. Qed.

Definition residues : list Z := map Z.of_nat (seq 0 40).
Definition residue_ok (v : Z) : bool :=
  match chroma_by_value v with
  | Some n => match assoc_str n chromas with Some v' => Z.eqb v v' | None => false end
  | None => Z.eqb v 22
  end.
Lemma residues_ok : forallb residue_ok residues = true.
Proof. vm_compute. reflexivity. Qed.
Lemma residue_22_none : chroma_by_value 22 = None.
Proof. vm_compute. reflexivity. Qed.

Lemma assoc_str_In {A} k (l : list (string * A)) v : assoc_str k l = Some v -> In (k, v) l.
Proof.
  induction l as [|[k' v'] l IH]; cbn; [discriminate|].
  destruct (String.eqb k k') eqn:E.
  - apply String.eqb_eq in E. intros H; inversion H; subst. auto.
  - auto.
Qed.

Lemma in_residues v : 0 <= v < 40 -> In v residues.
Proof.
  intros H. unfold residues. apply in_map_iff. exists (Z.to_nat v). split; [lia|].
  apply in_seq. lia.
Qed.

Lemma opt_str_eqb_eq a b : opt_str_eqb a b = true -> a = b.
Proof.
  destruct a, b; cbn; try discriminate; auto. intros H; apply String.eqb_eq in H; congruence.
Qed.

Lemma name_in_table n c :
  assoc_str n chromas = Some c ->
  0 <= c < chroma_base /\ chroma_by_value c = Some n /\ set_name n = Some n.
Proof.
  intros H. apply assoc_str_In in H.
  pose proof table_rows_ok as T. rewrite forallb_forall in T. specialize (T _ H).
  unfold table_row_ok in T.
  apply andb_prop in T as [T T4]. apply andb_prop in T as [T T3]. apply andb_prop in T as [T1 T2].
  apply opt_str_eqb_eq in T3, T4. apply Z.leb_le in T1. apply Z.ltb_lt in T2.
  repeat split; try assumption; lia.
Qed.

Lemma by_value_sound v n :
  0 <= v < chroma_base -> chroma_by_value v = Some n -> assoc_str n chromas = Some v.
Proof.
  intros Hv H. change chroma_base with 40 in Hv.
  pose proof residues_ok as R. rewrite forallb_forall in R. specialize (R v (in_residues v Hv)).
  unfold residue_ok in R. rewrite H in R.
  destruct (assoc_str n chromas) as [v'|]; [|discriminate]. apply Z.eqb_eq in R. congruence.
Qed.

Lemma by_value_none_iff v : 0 <= v < chroma_base -> (chroma_by_value v = None <-> v = 22).
Proof.
  intros Hv. change chroma_base with 40 in Hv. split.
  - intros H. pose proof residues_ok as R. rewrite forallb_forall in R. specialize (R v (in_residues v Hv)).
    unfold residue_ok in R. rewrite H in R. apply Z.eqb_eq in R. exact R.
  - intros ->. exact residue_22_none.
Qed.

(* shape of a successful transposition *)
Lemma to_transposed_inv p k d q :
  to_transposed p k d = Some q ->
  exists cp, assoc_str (ap_name p) chromas = Some cp /\
    let c := chroma_base * ap_octave p + cp + sgn d * k in
    ap_octave q = c / chroma_base /\
    assoc_str (ap_name q) chromas = Some (c mod chroma_base).
Proof.
  unfold to_transposed, get_chroma. destruct (assoc_str (ap_name p) chromas) as [cp|] eqn:Ecp; [|discriminate].
  intros H. exists cp. split; [reflexivity|]. cbv zeta.
  assert (Hd : match d with Up => k | Down => - k end = sgn d * k) by (destruct d; unfold sgn; lia).
  rewrite Hd in H.
  set (c := chroma_base * ap_octave p + cp + sgn d * k) in *.
  assert (Hb := base_pos).
  assert (Hm : 0 <= c mod chroma_base < chroma_base) by (apply Z.mod_pos_bound; lia).
  destruct (chroma_by_value (c mod chroma_base)) as [nm|] eqn:Ebv; [|discriminate].
  pose proof (by_value_sound _ _ Hm Ebv) as Hnm.
  destruct (name_in_table _ _ Hnm) as (_ & _ & Hset).
  unfold mk_pitch in H. rewrite Hset in H. inversion H; subst q; cbn. auto.
Qed.

Lemma to_transposed_intro p k d cp :
  assoc_str (ap_name p) chromas = Some cp ->
  let c := chroma_base * ap_octave p + cp + sgn d * k in
  forall nm, chroma_by_value (c mod chroma_base) = Some nm ->
  to_transposed p k d = Some {| ap_name := nm; ap_octave := c / chroma_base |}.
Proof.
  intros Hcp c nm Hnm. unfold to_transposed, get_chroma. rewrite Hcp.
  assert (Hd : match d with Up => k | Down => - k end = sgn d * k) by (destruct d; unfold sgn; lia).
  rewrite Hd. fold c. rewrite Hnm.
  assert (Hb := base_pos).
  assert (Hm : 0 <= c mod chroma_base < chroma_base) by (apply Z.mod_pos_bound; lia).
  pose proof (by_value_sound _ _ Hm Hnm) as H1.
  destruct (name_in_table _ _ H1) as (_ & _ & Hset).
  unfold mk_pitch. rewrite Hset. reflexivity.
Qed.

(* Inverse law: all pitches the table knows, ALL integers k (not only table intervals), all octaves *)
Theorem transpose_back p k d q :
  to_transposed p k d = Some q -> to_transposed q k (opp_direction d) = Some p.
Proof.
  intros H. destruct (to_transposed_inv _ _ _ _ H) as (cp & Hcp & Hq). cbv zeta in Hq.
  destruct Hq as [Hoq Hnq].
  set (c := chroma_base * ap_octave p + cp + sgn d * k) in *.
  destruct (name_in_table _ _ Hcp) as (Hrange & Hbv & _).
  assert (Hb := base_pos).
  assert (Hc : chroma_base * ap_octave q + c mod chroma_base + sgn (opp_direction d) * k
               = cp + ap_octave p * chroma_base).
  { rewrite Hoq. pose proof (Z.div_mod c chroma_base ltac:(lia)) as E.
    assert (sgn (opp_direction d) = - sgn d) by (destruct d; reflexivity). subst c. lia. }
  pose proof (to_transposed_intro q k (opp_direction d) _ Hnq) as I. cbv zeta in I.
  rewrite Hc in I. rewrite Z.mod_add in I by lia. rewrite Z.div_add in I by lia.
  rewrite Z.mod_small in I by lia. rewrite Z.div_small in I by lia.
  specialize (I _ Hbv). rewrite I. destruct p; cbn. reflexivity.
Qed.

(* Unison is the identity *)
Theorem unison_identity p d cp :
  assoc_str (ap_name p) chromas = Some cp -> to_transposed p 0 d = Some p.
Proof.
  intros Hcp. destruct (name_in_table _ _ Hcp) as (Hrange & Hbv & _). assert (Hb := base_pos).
  pose proof (to_transposed_intro p 0 d _ Hcp) as I. cbv zeta in I.
  replace (chroma_base * ap_octave p + cp + sgn d * 0) with (cp + ap_octave p * chroma_base) in I by ring.
  rewrite Z.mod_add, Z.div_add, Z.mod_small, Z.div_small in I by lia.
  rewrite (I _ Hbv). destruct p; reflexivity.
Qed.

(* An octave keeps the name and moves the octave by one *)
Theorem octave_keeps_name p d cp :
  assoc_str (ap_name p) chromas = Some cp ->
  to_transposed p chroma_base d = Some {| ap_name := ap_name p; ap_octave := ap_octave p + sgn d |}.
Proof.
  intros Hcp. destruct (name_in_table _ _ Hcp) as (Hrange & Hbv & _). assert (Hb := base_pos).
  pose proof (to_transposed_intro p chroma_base d _ Hcp) as I. cbv zeta in I.
  replace (chroma_base * ap_octave p + cp + sgn d * chroma_base)
    with (cp + (ap_octave p + sgn d) * chroma_base) in I by ring.
  rewrite Z.mod_add, Z.div_add, Z.mod_small, Z.div_small in I by lia.
  rewrite (I _ Hbv). reflexivity.
Qed.

(* Composition: transposing by k1 then k2 (same direction) = transposing by k1 + k2 *)
Theorem transpose_compose p k1 k2 d q r :
  to_transposed p k1 d = Some q -> to_transposed q k2 d = Some r ->
  to_transposed p (k1 + k2) d = Some r.
Proof.
  intros H1 H2.
  destruct (to_transposed_inv _ _ _ _ H1) as (cp & Hcp & Hoq & Hnq).
  set (c1 := chroma_base * ap_octave p + cp + sgn d * k1) in *.
  destruct (to_transposed_inv _ _ _ _ H2) as (cq & Hcq & Hor & Hnr).
  assert (Ecq : cq = c1 mod chroma_base) by congruence. subst cq. clear Hcq.
  assert (Hb := base_pos).
  assert (E : chroma_base * ap_octave q + c1 mod chroma_base + sgn d * k2
              = chroma_base * ap_octave p + cp + sgn d * (k1 + k2)).
  { rewrite Hoq. pose proof (Z.div_mod c1 chroma_base ltac:(lia)). subst c1. lia. }
  rewrite E in Hor, Hnr.
  set (c := chroma_base * ap_octave p + cp + sgn d * (k1 + k2)) in *.
  assert (Hm : 0 <= c mod chroma_base < chroma_base) by (apply Z.mod_pos_bound; lia).
  destruct (name_in_table _ _ Hnr) as (_ & Hbv & _).
  pose proof (to_transposed_intro p (k1 + k2) d _ Hcp) as I. cbv zeta in I. fold c in I.
  rewrite (I _ Hbv). destruct r; cbn in *. subst. reflexivity.
Qed.

Definition iv (n : string) : Z := match interval_by_name n with Some k => k | None => 0 end.

Theorem fourth_then_fifth_is_octave p d q r :
  to_transposed p (iv "P4") d = Some q -> to_transposed q (iv "P5") d = Some r ->
  to_transposed p (iv "octave") d = Some r.
Proof.
  intros H1 H2. pose proof (transpose_compose _ _ _ _ _ _ H1 H2) as H.
  replace (iv "P4" + iv "P5") with (iv "octave") in H by (vm_compute; reflexivity). exact H.
Qed.

Lemma iv_octave_is_base : iv "octave" = chroma_base. Proof. vm_compute. reflexivity. Qed.
Lemma iv_unison_is_zero : iv "P1" = 0. Proof. vm_compute. reflexivity. Qed.

(* The only failure is residue 22 *)
Theorem fails_only_on_22 p k d cp :
  assoc_str (ap_name p) chromas = Some cp ->
  (to_transposed p k d = None <-> (chroma_base * ap_octave p + cp + sgn d * k) mod chroma_base = 22).
Proof.
  intros Hcp. assert (Hb := base_pos).
  set (c := chroma_base * ap_octave p + cp + sgn d * k).
  assert (Hm : 0 <= c mod chroma_base < chroma_base) by (apply Z.mod_pos_bound; lia).
  split.
  - intros H. apply by_value_none_iff; [exact Hm|].
    destruct (chroma_by_value (c mod chroma_base)) as [nm|] eqn:E; [|reflexivity].
    pose proof (to_transposed_intro p k d _ Hcp) as I. cbv zeta in I. fold c in I.
    rewrite (I _ E) in H. discriminate.
  - intros H. unfold to_transposed, get_chroma. rewrite Hcp.
    assert (Hd : match d with Up => k | Down => - k end = sgn d * k) by (destruct d; unfold sgn; lia).
    rewrite Hd. fold c. rewrite H. rewrite residue_22_none. reflexivity.
Qed.

(* AVAILABLE_INTERVALS is exactly the set of table names, sorted *)
Lemma available_intervals_count :
  List.length available_intervals = List.length intervals.
Proof. vm_compute. reflexivity. Qed.

(* non-vacuity: a concrete spellable case and a concrete round trip *)
Example exact_nonvacuous :
  to_transposed (spec_pitch 0 1 5) (iv "P4") Up = Some (spec_pitch 3 1 5) /\
  to_transposed (spec_pitch 0 0 4) (iv "m3") Down = Some (spec_pitch 5 0 3).
Proof. vm_compute. auto. Qed.
