(* C12 at document level: the error list of an imported document is exactly the list of its ErrorToken nodes, in
   creation order and without repetition; each ErrorToken carries the text of its cell and the number of its line. *)
From Coq Require Import List String Ascii Bool Arith Lia.
From KV Require Import Strings CatGen Cat Token SpineImpGen SpineImp KernTok Importer TreeProofs.
Import ListNotations.
Open Scope list_scope.

(* ---- the recogniser never builds an ErrorToken itself *)
Definition tok_not_error (t : token) : bool := match t with TError _ _ => false | _ => true end.
Definition kres_ok (r : kres) : bool := match r with KTok t => tok_not_error t | KOut => true end.

Ltac break_all := repeat match goal with |- context [match ?x with _ => _ end] => destruct x end.

Lemma scan_barline_ok s : kres_ok (scan_barline s) = true.
Proof. unfold scan_barline. break_all; reflexivity. Qed.

Lemma scan_clef_ok s l : kres_ok (scan_clef s l) = true.
Proof. unfold scan_clef, simple. break_all; reflexivity. Qed.

Lemma scan_interpretation_ok s : kres_ok (scan_interpretation s) = true.
Proof.
  unfold scan_interpretation, simple. cbv zeta.
  repeat match goal with
         | |- kres_ok (scan_clef _ _) = true => apply scan_clef_ok
         | |- kres_ok (if ?b then _ else _) = true => destruct b
         | |- kres_ok (match ?x with _ => _ end) = true => destruct x
         | |- kres_ok (KTok _) = true => reflexivity
         | |- kres_ok KOut = true => reflexivity
         end.
Qed.

Lemma scan_notes_ok s : kres_ok (scan_notes s) = true.
Proof. unfold scan_notes. cbv zeta. destruct (scan_elements _ _ _) as [[els st]|]; [|reflexivity]. destruct els as [|e [|e2 r]]; reflexivity. Qed.

Lemma kern_recognise_ok s : kres_ok (kern_recognise s) = true.
Proof.
  unfold kern_recognise. destruct s as [|c s']; [reflexivity|].
  destruct (String.eqb _ "."); [reflexivity|]. destruct (Ascii.eqb c "*"); [apply scan_interpretation_ok|].
  destruct (Ascii.eqb c "="); [apply scan_barline_ok | apply scan_notes_ok].
Qed.

Lemma import_cell_not_error bad h s t : import_cell bad h s = RTok t -> tok_not_error t = true.
Proof.
  unfold import_cell. destruct (String.eqb s ""); [discriminate|].
  pose proof (kern_recognise_ok s) as K.
  destruct (mem_str s bad).
  - unfold import_token. destruct (import_kind _ _ _ _ _) as [e|[c [t'|]]|txt c] eqn:E; try discriminate.
    + (* RKept (c, Some t') from a recogniser that answers None: impossible *)
      exfalso. unfold import_kind in E. destruct (kind_of_header h); try discriminate; destruct (String.eqb s ""); discriminate.
    + intros H. injection H as <-. reflexivity.
  - destruct (kern_recognise s) as [t0|] eqn:Ek.
    + unfold import_token. destruct (import_kind _ _ _ _ _) as [e|[c [t'|]]|txt c] eqn:E; try discriminate.
      * intros H. injection H as <-. unfold import_kind in E.
        destruct (kind_of_header h); try discriminate; destruct (String.eqb s ""); try discriminate.
        -- injection E as _ <-. exact K.
        -- injection E as _ <-. exact K.
        -- destruct (if negated then _ else _); [discriminate|]. injection E as _ <-. exact K.
      * intros H. injection H as <-. reflexivity.
    + destruct (oracle_cat bad s) as [c0|]; [|discriminate].
      unfold import_token. destruct (import_kind _ _ _ _ _) as [e|[c [t'|]]|txt c] eqn:E; try discriminate.
      * exfalso. unfold import_kind in E. destruct (kind_of_header h); try discriminate; destruct (String.eqb s ""); try discriminate.
        destruct (if negated then _ else _); discriminate.
      * intros H. injection H as <-. reflexivity.
Qed.

(* ---- the invariant *)
Definition is_error_tok (t : option token) : bool := match t with Some (TError _ _) => true | _ => false end.
Definition error_nodes (d : doc) : list nat :=
  filter (fun i => is_error_tok (n_tok (get_node d i))) (seq 0 (List.length (d_nodes d))).

Record err_ok (d : doc) : Prop := {
  e_list : d_errors d = error_nodes d;
  e_line : forall i e l, i < List.length (d_nodes d) -> n_tok (get_node d i) = Some (TError e l) -> l = n_stage (get_node d i) }.

Lemma err_ok_empty : err_ok empty_doc.
Proof. split; [reflexivity|]. intros i e l Hi H. cbn in Hi. assert (i = 0) by lia. subst. discriminate. Qed.

Lemma core_tok_stage d d' i : core (get_node d' i) = core (get_node d i) ->
  n_tok (get_node d' i) = n_tok (get_node d i) /\ n_stage (get_node d' i) = n_stage (get_node d i).
Proof. unfold core. intros H. injection H as _ H2 H3 _ _. split; assumption. Qed.

(* setters that keep links and the error list *)
Lemma err_ok_same d d' : same_links d d' -> d_errors d' = d_errors d -> err_ok d -> err_ok d'.
Proof.
  intros [L H] He [E1 E2]. split.
  - rewrite He, E1. unfold error_nodes. rewrite L. apply filter_ext. intros i. destruct (H i) as [C _].
    destruct (core_tok_stage d d' i C) as [-> _]. reflexivity.
  - intros i e l Hi Ht. rewrite L in Hi. destruct (H i) as [C _]. destruct (core_tok_stage d d' i C) as [T1 T2].
    rewrite T1 in Ht. rewrite T2. exact (E2 i e l Hi Ht).
Qed.

Lemma add_node_errors d st p t lo sg h d' id : add_node d st p t lo sg h = IOk (d', id) -> d_errors d' = d_errors d.
Proof. unfold add_node. destruct (Nat.ltb _ _); [discriminate|]. intros H. injection H as <- _. reflexivity. Qed.

Lemma error_nodes_add d d' id t : List.length (d_nodes d') = S id -> id = List.length (d_nodes d) ->
  n_tok (get_node d' id) = Some t -> (forall i, i < id -> core (get_node d' i) = core (get_node d i)) ->
  error_nodes d' = error_nodes d ++ (if tok_not_error t then [] else [id]).
Proof.
  intros L Hid Ht Hold. unfold error_nodes. rewrite L, seq_S, filter_app. cbn [plus filter]. rewrite Ht. f_equal.
  - rewrite <- Hid. apply filter_ext_in. intros i Hi. apply in_seq in Hi. destruct (core_tok_stage d d' i (Hold i ltac:(lia))) as [-> _]. reflexivity.
  - destruct t; reflexivity.
Qed.

(* adding a node: [line_ok] says an ErrorToken being added carries the stage number *)
Lemma err_ok_add d st p t lo sg h d' id : tree_ok d -> p < List.length (d_nodes d) -> err_ok d ->
  add_node d st p t lo sg h = IOk (d', id) -> (forall e l, t = TError e l -> l = st) ->
  err_ok (if tok_not_error t then d' else add_error d' id).
Proof.
  intros T Hp [E1 E2] Ha Hline.
  destruct (add_node_spec d st p t lo sg h d' id T Hp Ha) as [Hid [L [_ [_ [Ht [_ [Hst [_ Hold]]]]]]]].
  assert (Hold' : forall i, i < id -> core (get_node d' i) = core (get_node d i)) by (intros i Hi; apply (Hold i Hi)).
  pose proof (error_nodes_add d d' id t L Hid Ht Hold') as EN.
  pose proof (add_node_errors _ _ _ _ _ _ _ _ _ Ha) as DE.
  assert (Line : forall i e l, i < List.length (d_nodes d') -> n_tok (get_node d' i) = Some (TError e l) -> l = n_stage (get_node d' i)).
  { intros i e l Hi Hti. rewrite L in Hi. destruct (Nat.eq_dec i id) as [->|Hne].
    - rewrite Ht in Hti. injection Hti as ->. rewrite Hst. apply (Hline e l eq_refl).
    - destruct (core_tok_stage d d' i (Hold' i ltac:(lia))) as [T1 T2]. rewrite T1 in Hti. rewrite T2. apply (E2 i e l); [lia | exact Hti]. }
  destruct (tok_not_error t) eqn:Et.
  - split; [|exact Line]. rewrite DE, E1, EN, app_nil_r. reflexivity.
  - split.
    + cbn [add_error d_errors]. rewrite DE, E1. change (error_nodes (add_error d' id)) with (error_nodes d'). rewrite EN. reflexivity.
    + exact Line.
Qed.

Ltac links := first [apply links_set_header_self | apply links_sig_update | apply links_set_cancelled | apply links_add_error
                     | apply links_set_header_stage | apply links_push_mst | apply same_links_refl].

(* one cell: inside a row the line counter equals the stage *)
Lemma step_cell_err bad row s icol col s' b : state_ok s -> err_ok (i_doc s) -> i_row s = i_stage s ->
  step_cell bad row s icol col = IOk (s', b) -> err_ok (i_doc s') /\ i_row s' = i_stage s'.
Proof.
  intros [T Hn Hp Hh] Hd Hrow. unfold step_cell.
  destruct (startswith "**" col).
  - destruct (add_node _ _ _ _ _ _ _) as [[d1 id]| |] eqn:Ha; try discriminate.
    assert (T0 : tree_ok (set_header_stage (i_doc s) (i_stage s))) by (eapply tree_ok_same_links; [links | exact T]).
    assert (Hd0 : err_ok (set_header_stage (i_doc s) (i_stage s))) by (eapply err_ok_same; [links | reflexivity | exact Hd]).
    intros H. injection H as <- <-. unfold push_next, set_doc. cbn [i_doc i_row i_stage]. split; [|exact Hrow].
    pose proof (err_ok_add _ _ _ _ _ _ _ _ _ T0 Hh Hd0 Ha ltac:(discriminate)) as H1. cbn [tok_not_error] in H1.
    eapply err_ok_same; [links | reflexivity | exact H1].
  - destruct (mem_str col spine_operations).
    + destruct (i_prev s) as [prev|] eqn:Ep; [|discriminate].
      destruct (Nat.leb _ icol); [discriminate|].
      assert (Hpar : nth icol prev 0 < List.length (d_nodes (i_doc s))) by (apply nth_ids_ok; [assumption | apply T]).
      destruct (add_node _ _ _ _ _ _ _) as [[d1 id]| |] eqn:Ha; try discriminate.
      pose proof (err_ok_add _ _ _ _ _ _ _ _ _ T Hpar Hd Ha ltac:(discriminate)) as H1. cbn [tok_not_error] in H1.
      assert (Gen : forall d2, same_links d1 d2 -> d_errors d2 = d_errors d1 -> err_ok d2) by (intros d2 S2 E2; eapply err_ok_same; eassumption).
      destruct (String.eqb col "*-").
      { intros H. injection H as <- <-. unfold set_doc. cbn [i_doc i_row i_stage]. split; [|exact Hrow]. destruct (n_lastop _); apply Gen; first [links | reflexivity]. }
      destruct (String.eqb col "*+" || String.eqb col "*^").
      { intros H. injection H as <- <-. split; [exact H1 | exact Hrow]. }
      destruct (String.eqb col "*v"); [|discriminate].
      intros H. injection H as <- <-.
      destruct (match icol with O => true | S _ => _ end); unfold push_next, set_doc; cbn [i_doc i_row i_stage]; (split; [|exact Hrow]);
        destruct (n_lastop _); apply Gen; first [links | reflexivity].
    + match goal with |- context [match ?X with IOk _ => _ | IErr _ => _ | IOut => _ end = _] => destruct X as [[tok is_err]| |] eqn:Etok end;
        try discriminate.
      destruct (i_prev s) as [prev|] eqn:Ep; [|discriminate].
      destruct (Nat.leb _ icol) eqn:Eleb; [discriminate|].
      assert (Hpar : nth icol prev 0 < List.length (d_nodes (i_doc s))) by (apply nth_ids_ok; [assumption | apply T]).
      (* the flag says exactly whether the token is an ErrorToken, and an ErrorToken carries the line *)
      assert (Hflag : is_err = negb (tok_not_error tok) /\ (forall e l, tok = TError e l -> l = i_stage s)).
      { destruct (startswith "!" col).
        - injection Etok as <- <-. split; [reflexivity | discriminate].
        - destruct (n_header _) as [hid|]; [|discriminate].
          destruct (import_cell bad _ col) as [t| |] eqn:Ei; try discriminate.
          + injection Etok as <- <-. pose proof (import_cell_not_error _ _ _ _ Ei) as K. rewrite K. split; [reflexivity|].
            intros e l ->. discriminate.
          + injection Etok as <- <-. split; [reflexivity|]. intros e l H. injection H as _ <-. exact Hrow. }
      destruct Hflag as [Hf Hl].
      destruct (add_node _ _ _ _ _ _ _) as [[d1 id]| |] eqn:Ha; try discriminate.
      pose proof (err_ok_add _ _ _ _ _ _ _ _ _ T Hpar Hd Ha Hl) as H1.
      intros H. injection H as <- <-. unfold push_next, set_doc. cbn [i_doc i_row i_stage]. split; [|exact Hrow].
      set (d2 := if is_err then add_error d1 id else d1).
      assert (H2 : err_ok d2).
      { unfold d2. rewrite Hf. destruct (tok_not_error tok); exact H1. }
      destruct (cat_beq _ BARLINES || _); [exact H2|]. destruct (String.eqb _ "BoundingBoxToken"); [exact H2|].
      destruct (is_signature_token tok); [eapply err_ok_same; [links | reflexivity | exact H2] | exact H2].
Qed.

Lemma step_cells_err bad row : forall cols s icol bar s' b, state_ok s -> err_ok (i_doc s) -> i_row s = i_stage s ->
  step_cells bad row s icol cols bar = IOk (s', b) -> err_ok (i_doc s') /\ i_row s' = i_stage s'.
Proof.
  induction cols as [|c cols IH]; intros s icol bar s' b Hs Hd Hr; simpl.
  - intros H. injection H as <- <-. split; assumption.
  - destruct (step_cell bad row s icol c) as [[s1 b1]| |] eqn:Hc; try discriminate.
    destruct (step_cell_err _ _ _ _ _ _ _ Hs Hd Hr Hc) as [D1 R1].
    intros H. eapply IH; [eapply step_cell_ok; eassumption | exact D1 | exact R1 | exact H].
Qed.

(* between rows the line counter is one ahead of the stage counter *)
Lemma step_row_err bad s row s' : state_ok s -> err_ok (i_doc s) -> i_row s = S (i_stage s) ->
  step_row bad s row = IOk s' -> err_ok (i_doc s') /\ i_row s' = S (i_stage s').
Proof.
  intros Hs Hd Hr. pose proof Hs as [T Hn Hp Hh]. unfold step_row. destruct row as [|first rest].
  - intros H. injection H as <-. split; assumption.
  - set (prev := match i_next s with [] => i_prev s | n :: l0 => Some (n :: l0) end).
    assert (Hprev : match prev with Some l => ids_ok (i_doc s) l | None => True end).
    { unfold prev. destruct (i_next s) eqn:E; [exact Hp | exact Hn]. }
    clearbody prev.
    destruct (startswith "!!" first).
    + destruct (add_node _ _ _ _ _ _ _) as [[d1 id]| |] eqn:Ha; try discriminate. cbn [i_doc i_prehdr] in Ha.
      intros H. injection H as <-. cbn [i_doc i_row i_stage]. split; [|now rewrite Hr].
      pose proof (err_ok_add _ _ _ _ _ _ _ _ _ T Hh Hd Ha ltac:(discriminate)) as H1. exact H1.
    + match goal with |- context [step_cells bad ?r ?s0 0 ?r false] =>
        assert (Hs0 : state_ok s0) by (apply state_ok_intro; [exact T | apply ids_ok_nil | exact Hprev | exact Hh]);
        assert (Hd0 : err_ok (i_doc s0)) by exact Hd;
        assert (Hr0 : i_row s0 = i_stage s0) by (cbn [i_row i_stage]; exact Hr);
        destruct (step_cells bad r s0 0 r false) as [[s1 bar]| |] eqn:Hc end; try discriminate.
      destruct (step_cells_err _ _ _ _ _ _ _ _ Hs0 Hd0 Hr0 Hc) as [H1 R1].
      intros H. injection H as <-. cbn [i_doc i_row i_stage]. split; [|now rewrite R1].
      destruct bar; [eapply err_ok_same; [links | reflexivity | exact H1] | exact H1].
Qed.

Theorem run_rows_err bad : forall rows s s', state_ok s -> err_ok (i_doc s) -> i_row s = S (i_stage s) ->
  run_rows bad s rows = IOk s' -> err_ok (i_doc s').
Proof.
  induction rows as [|r rows IH]; intros s s' Hs Hd Hr; simpl; [intros H; injection H as <-; exact Hd|].
  destruct (step_row bad s r) as [s1| |] eqn:Hrow; try discriminate.
  destruct (step_row_err _ _ _ _ Hs Hd Hr Hrow) as [D1 R1].
  intros H. eapply IH; [eapply step_row_ok; eassumption | exact D1 | exact R1 | exact H].
Qed.

Theorem loads_errors bad text d : loads bad text = IOk d -> err_ok d.
Proof.
  unfold loads. destruct (run_rows bad init_state (rows_of_text text)) as [s| |] eqn:H; try discriminate.
  intros E. injection E as <-. exact (run_rows_err _ _ _ _ init_state_ok err_ok_empty eq_refl H).
Qed.

(* the statement of the property: one report per malformed cell *)
Theorem errors_reported_once bad text d : loads bad text = IOk d ->
  NoDup (d_errors d) /\
  (forall id, In id (d_errors d) <-> id < List.length (d_nodes d) /\ exists e l, n_tok (get_node d id) = Some (TError e l)) /\
  (forall id e l, n_tok (get_node d id) = Some (TError e l) -> id < List.length (d_nodes d) -> l = n_stage (get_node d id)).
Proof.
  intros H. destruct (loads_errors bad text d H) as [E1 E2]. split; [|split].
  - rewrite E1. unfold error_nodes. apply NoDup_filter, seq_NoDup.
  - intros id. rewrite E1. unfold error_nodes. rewrite filter_In, in_seq. split.
    + intros [[_ Hlt] Ht]. split; [exact Hlt|]. destruct (n_tok (get_node d id)) as [[]|]; try discriminate. eauto.
    + intros [Hlt [e [l Ht]]]. split; [lia|]. rewrite Ht. reflexivity.
  - intros id e l Ht Hlt. exact (E2 id e l Hlt Ht).
Qed.

(* an ErrorToken is exported as the text it was built from, under every category selection, converter and encoding *)
Lemma error_token_verbatim keep conv e l : export_token keep conv (TError e l) = Ok e.
Proof. reflexivity. Qed.
