(* C01 at token level: the kern export of a canonical note is its canonical text, and re-importing that text gives
   the same token - export o import o export = export for every well-formed single note whose signifiers are in
   canonical (sorted) order. *)
From Coq Require Import List String Ascii Bool ZArith Lia Sorted Permutation.
From KV Require Import Strings CatGen Cat CatProofs EncGen Token Tokenizers KernTok StringProofs TokenProofs CanonProofs ScanProofs.
Import ListNotations.
Open Scope list_scope.

(* ---- a sorted list is a fixed point of the stable sort *)
Section SortId.
  Context {A : Type} (leb : A -> A -> bool).

  Lemma insert_at_end x : forall acc, Forall (fun y => leb y x = true) acc -> insert_sorted leb x acc = acc ++ [x].
  Proof.
    induction acc as [|y acc IH]; intros H; simpl; [reflexivity|].
    inversion H as [|? ? Hy H']; subst. rewrite Hy. now rewrite IH.
  Qed.

  Lemma sort_acc_id : forall l acc, StronglySorted (fun a b => leb a b = true) (acc ++ l) ->
    insertion_sort_acc leb acc l = acc ++ l.
  Proof.
    induction l as [|x l IH]; intros acc H; simpl; [now rewrite app_nil_r|].
    assert (Hall : Forall (fun y => leb y x = true) acc).
    { clear IH. induction acc as [|y acc IHa]; [constructor|]. simpl in H. inversion H as [|? ? H' Hy]; subst.
      constructor; [rewrite Forall_forall in Hy; apply Hy; apply in_app_iff; right; now left | apply IHa; exact H']. }
    rewrite (insert_at_end x acc Hall). rewrite IH; [now rewrite <- app_assoc | rewrite <- app_assoc; exact H].
  Qed.

  Lemma stable_sort_id l : StronglySorted (fun a b => leb a b = true) l -> stable_sort leb l = l.
  Proof. intros H. unfold stable_sort. now rewrite sort_acc_id. Qed.
End SortId.

(* ---- character facts: everything a canonical note is written with is 7-bit and is not '@' *)
Definition plainc (c : ascii) : bool := negb (Ascii.eqb c "@") && negb (Ascii.eqb c (ascii_of_nat 194)).

Lemma class_plain_b : forallb (fun c => implb (is_digit c || is_pitch_letter c || is_note_deco c || is_display c || in_chars "#-n%.qpP" c) (plainc c)) all_bytes = true.
Proof. vm_compute. reflexivity. Qed.
Lemma class_plain c : (is_digit c || is_pitch_letter c || is_note_deco c || is_display c || in_chars "#-n%.qpP" c) = true -> plainc c = true.
Proof. intros H. pose proof (byte_lift _ class_plain_b c) as G. cbv beta in G. rewrite H in G. exact G. Qed.

Lemma forallb_impl {A} (p q : A -> bool) l : (forall x, p x = true -> q x = true) -> forallb p l = true -> forallb q l = true.
Proof. intros H. induction l as [|x l IH]; simpl; [reflexivity|]. intros Hp. apply andb_true_iff in Hp. destruct Hp as [H1 H2]. now rewrite (H x H1), IH. Qed.

Lemma avoids_str c0 l : forallb (fun c => negb (Ascii.eqb c c0)) l = true -> avoids c0 (str l) = true.
Proof. induction l as [|x l IH]; simpl; [reflexivity|]. intros H. apply andb_true_iff in H. destruct H as [H1 H2]. now rewrite H1, IH. Qed.

Lemma plain_avoids l : forallb plainc l = true -> avoids "@" (str l) = true /\ avoids (ascii_of_nat 194) (str l) = true.
Proof.
  intros H. split; apply avoids_str; eapply forallb_impl; [|exact H| |exact H]; intros x Hx; unfold plainc in Hx;
    apply andb_true_iff in Hx; tauto.
Qed.

(* ---- the exported text of a canonical note *)
Lemma keep_all_cats c : keep_of all_cats c = true.
Proof. unfold keep_of. apply mem_In, all_cats_complete. Qed.

Lemma filter_keep_all (l : list subtoken) : filter (fun s => keep_of all_cats (st_cat s)) l = l.
Proof. induction l as [|x l IH]; cbn [filter]; [reflexivity|]. now rewrite keep_all_cats, IH. Qed.

Lemma sorted_app {A} (R : A -> A -> Prop) l1 l2 : StronglySorted R l1 -> StronglySorted R l2 ->
  (forall a b, In a l1 -> In b l2 -> R a b) -> StronglySorted R (l1 ++ l2).
Proof.
  induction l1 as [|x l1 IH]; intros H1 H2 H; simpl; [exact H2|].
  inversion H1 as [|? ? H1' Hx]; subst. constructor.
  - apply IH; [exact H1' | exact H2 | intros a b Ha Hb; apply H; [now right | exact Hb]].
  - apply Forall_app. split; [exact Hx|]. rewrite Forall_forall. intros b Hb. apply H; [now left | exact Hb].
Qed.

Lemma note_pd_sorted n : StronglySorted (fun a b => sub_cat_leb a b = true) (note_pd n).
Proof.
  unfold note_pd. apply sorted_app; [|apply sorted_app|].
  - (* durations: all of category DURATION *)
    generalize (match nt_dur n with Some d => dur_tokens d | None => [] end). intros ds.
    induction ds as [|x ds IH]; simpl; [constructor|]. constructor; [exact IH|].
    rewrite Forall_forall. intros b Hb. unfold mk_durs in Hb. apply in_map_iff in Hb. destruct Hb as [e [<- _]]. reflexivity.
  - repeat constructor.
  - destruct (acc_chars n); repeat constructor.
  - intros a b Ha Hb. simpl in Ha. destruct Ha as [<-|[]]. destruct (acc_chars n); [contradiction|]. destruct Hb as [<-|[]]. reflexivity.
  - intros a b Ha Hb. unfold mk_durs in Ha. apply in_map_iff in Ha. destruct Ha as [e [<- _]].
    apply in_app_iff in Hb. destruct Hb as [[<-|[]]|Hb]; [reflexivity|]. destruct (acc_chars n); [contradiction|]. destruct Hb as [<-|[]]. reflexivity.
Qed.

Lemma concat_single_chars l : String.concat "" (map (fun c => String c ""%string) l) = str l.
Proof.
  induction l as [|x l IH]; [reflexivity|]. destruct l as [|y l']; [reflexivity|].
  change (map (fun c => String c ""%string) (x :: y :: l')) with (String x ""%string :: map (fun c => String c ""%string) (y :: l')).
  cbn [String.concat]. rewrite IH. reflexivity.
Qed.

Lemma concat_cons s l : String.concat "" (s :: l) = (s ++ String.concat "" l)%string.
Proof. destruct l; simpl; [now rewrite StringProofs.append_nil_r | reflexivity]. Qed.

Lemma concat_app_list l1 l2 : String.concat "" (l1 ++ l2) = (String.concat "" l1 ++ String.concat "" l2)%string.
Proof. induction l1 as [|x l1 IH]; [reflexivity|]. cbn [app]. rewrite !concat_cons, IH. now rewrite StringProofs.append_assoc. Qed.

Lemma str_app a b : str (a ++ b) = (str a ++ str b)%string.
Proof. apply string_of_chars_app. Qed.

Lemma mk_durs_enc ds : map st_enc (mk_durs ds) = ds.
Proof. unfold mk_durs. rewrite map_map. simpl. apply map_id. Qed.

Lemma join_last sep : forall parts last tl, (join sep (parts ++ [last]) ++ tl)%string = join sep (parts ++ [(last ++ tl)%string]).
Proof.
  induction parts as [|x parts IH]; intros last tl; [reflexivity|].
  destruct parts as [|y parts'].
  - simpl. now rewrite !StringProofs.append_assoc.
  - change ((x :: y :: parts') ++ [last]) with (x :: (y :: parts') ++ [last]).
    change ((x :: y :: parts') ++ [(last ++ tl)%string]) with (x :: (y :: parts') ++ [(last ++ tl)%string]).
    cbn [join app]. cbn [join app] in IH. rewrite !StringProofs.append_assoc. f_equal. f_equal. apply IH.
Qed.

(* ---- removing the separators from "parts joined by @, then the decoration separator, then signifiers joined by it" *)
Definition amp : ascii := "@"%char.
Definition mid0 : ascii := ascii_of_nat 194.

Lemma token_separator_val : token_separator = String amp ""%string. Proof. reflexivity. Qed.
Lemma decoration_separator_val : exists p, decoration_separator = String mid0 p. Proof. eexists. reflexivity. Qed.

Lemma avoids_concat c0 l : forallb (avoids c0) l = true -> avoids c0 (String.concat "" l) = true.
Proof.
  induction l as [|x l IH]; intros H; [reflexivity|]. simpl in H. apply andb_true_iff in H. destruct H as [H1 H2].
  rewrite concat_cons, avoids_app, H1, (IH H2). reflexivity.
Qed.

Lemma join_empty sep l : sep <> ""%string -> join sep l = ""%string -> String.concat "" l = ""%string.
Proof.
  intros Hs. destruct l as [|x [|y l']]; simpl; intros H; [reflexivity | now rewrite H |].
  exfalso. destruct x; simpl in H; [|discriminate]. destruct sep; [apply Hs; reflexivity | discriminate].
Qed.

Lemma avoids_join c0 sep l : avoids c0 sep = true -> forallb (avoids c0) l = true -> avoids c0 (join sep l) = true.
Proof.
  intros Hs. induction l as [|x l IH]; intros H; [reflexivity|]. simpl in H. apply andb_true_iff in H. destruct H as [H1 H2].
  destruct l as [|y l']; [simpl; exact H1|].
  change (join sep (x :: y :: l')) with (x ++ sep ++ join sep (y :: l'))%string. rewrite !avoids_app, H1, Hs, (IH H2). reflexivity.
Qed.

Lemma avoids_app3 c a b d : avoids c (a ++ b ++ d)%string = avoids c a && avoids c b && avoids c d.
Proof. now rewrite !avoids_app, andb_assoc. Qed.

Lemma concat_snoc l x : String.concat "" (l ++ [x]) = (String.concat "" l ++ x)%string.
Proof. rewrite concat_app_list. simpl. reflexivity. Qed.

Theorem strip_joined parts dparts : parts <> [] ->
  forallb (avoids amp) parts = true -> forallb (avoids mid0) parts = true ->
  forallb (avoids amp) dparts = true -> forallb (avoids mid0) dparts = true ->
  strip_separators (if String.eqb (join decoration_separator dparts) "" then join token_separator parts
                    else (join token_separator parts ++ decoration_separator ++ join decoration_separator dparts)%string)
  = (String.concat "" parts ++ String.concat "" dparts)%string.
Proof.
  intros Hne Ha Hm Hda Hdm. unfold strip_separators. rewrite token_separator_val. destruct decoration_separator_val as [p Ep]. rewrite Ep.
  assert (Hsep_amp : avoids amp (String mid0 p) = true) by (rewrite <- Ep; reflexivity).
  destruct (String.eqb (join (String mid0 p) dparts) "") eqn:E.
  - apply String.eqb_eq in E. assert (Hnz : String mid0 p <> ""%string) by discriminate.
    rewrite (join_empty (String mid0 p) dparts Hnz E), StringProofs.append_nil_r.
    rewrite (replace_join amp ""%string parts Ha). apply replace_avoids. apply avoids_concat. exact Hm.
  - (* split parts = init ++ [last] *)
    destruct (exists_last Hne) as [init [last Epl]]. subst parts.
    rewrite join_last.
    assert (Ha' : forallb (avoids amp) (init ++ [(last ++ String mid0 p ++ join (String mid0 p) dparts)%string]) = true).
    { rewrite forallb_app in *. apply andb_true_iff in Ha. destruct Ha as [Ha1 Ha2]. rewrite Ha1. cbn [forallb andb] in *.
      rewrite andb_true_r in *. rewrite (avoids_app3 amp last (String mid0 p)), Ha2, Hsep_amp. rewrite (avoids_join amp _ dparts Hsep_amp Hda). reflexivity. }
    rewrite (replace_join amp ""%string _ Ha').
    rewrite !concat_snoc. rewrite <- StringProofs.append_assoc.
    assert (Hm' : avoids mid0 (String.concat "" init ++ last)%string = true).
    { rewrite <- concat_snoc. apply avoids_concat. exact Hm. }
    rewrite (replace_app mid0 p (String.concat "" init ++ last)%string _ Hm').
    rewrite (replace_join mid0 p dparts Hdm). reflexivity.
Qed.

(* ---- all characters of a canonical note are plain *)
Lemma forallb_plain_digits l : forallb is_digit l = true -> forallb plainc l = true.
Proof. apply forallb_impl. intros x H. apply class_plain. now rewrite H. Qed.

Lemma plain_in s c : in_chars s c = true -> (forall x, in_chars s x = true -> plainc x = true) -> plainc c = true.
Proof. intros H G. apply G. exact H. Qed.

Lemma plain_of_set c : in_chars "#-n%.qpP" c = true -> plainc c = true.
Proof. intros H. apply class_plain. rewrite H. now rewrite !orb_true_r. Qed.

Lemma dur_tokens_plain d : dur_ok d -> forallb (fun s => forallb plainc (chars_of_string s)) (dur_tokens d) = true.
Proof.
  intros [Hn [Hne [Hf Hg]]]. unfold dur_tokens, modern_chars. cbn [forallb]. apply andb_true_iff. split.
  - unfold str. rewrite chars_of_string_of_chars. rewrite forallb_app. rewrite (forallb_plain_digits _ Hn). simpl.
    destruct (cd_frac d) as [f|]; [|reflexivity]. destruct Hf as [Hfd _]. cbn [forallb]. rewrite (forallb_plain_digits _ Hfd). reflexivity.
  - rewrite forallb_app. apply andb_true_iff. split.
    + induction (cd_dots d); simpl; [reflexivity | exact IHn].
    + destruct (grace_cases _ Hg) as [->|[->|[->|[->| ->]]]]; reflexivity.
Qed.

Lemma core_plain core : core_ok core = true -> forallb plainc core = true.
Proof.
  intros Hc. destruct core as [|c core']; [reflexivity|]. unfold core_ok in Hc. apply orb_true_iff in Hc. destruct Hc as [Hc|Hc].
  - apply andb_true_iff in Hc. destruct Hc as [Hc _]. apply orb_true_iff in Hc. destruct Hc as [Hc|Hc];
      apply andb_true_iff in Hc; destruct Hc as [_ Hall]; eapply forallb_impl; [|exact Hall| |exact Hall];
      intros x Hx; apply Ascii.eqb_eq in Hx; subst x; reflexivity.
  - apply andb_true_iff in Hc. destruct Hc as [Hc Hl]. apply Ascii.eqb_eq in Hc. subst c. destruct core'; [reflexivity | discriminate].
Qed.

Lemma disp_plain disp : disp_ok disp = true -> forallb plainc disp = true.
Proof.
  intros Hd. destruct disp as [|d1 [|d2 [|d3 disp']]]; simpl in Hd; try discriminate; [reflexivity | |].
  - cbn [forallb]. rewrite (class_plain d1) by (rewrite Hd; now rewrite !orb_true_r). reflexivity.
  - apply orb_true_iff in Hd. destruct Hd as [Hd|Hd]; apply andb_true_iff in Hd; destruct Hd as [H1 H2];
      apply Ascii.eqb_eq in H1; apply Ascii.eqb_eq in H2; subst; reflexivity.
Qed.

Lemma append_eq_empty (a b : string) : (a ++ b)%string = ""%string -> a = ""%string /\ b = ""%string.
Proof. destruct a; simpl; [tauto | discriminate]. Qed.

Lemma join_app_empty sep : forall l tl, (join sep l ++ tl)%string = ""%string -> forall x, In x l -> x = ""%string.
Proof.
  induction l as [|x l IH]; intros tl H y Hy; [contradiction|].
  destruct l as [|z l'].
  - simpl in H. destruct Hy as [<-|[]]. now apply append_eq_empty in H.
  - change (join sep (x :: z :: l')) with (x ++ sep ++ join sep (z :: l'))%string in H.
    rewrite !StringProofs.append_assoc in H. apply append_eq_empty in H. destruct H as [Hx H]. apply append_eq_empty in H. destruct H as [_ H].
    destruct Hy as [<-|Hy]; [exact Hx | exact (IH tl H y Hy)].
Qed.

(* ---- the kern export of a canonical note is its canonical text *)
Definition canonical_order (n : cnote) : Prop :=
  StronglySorted (fun a b => sub_full_leb a b = true) (map deco_of (nt_decos n)).

Theorem kern_export_canonical n : note_ok n -> canonical_order n ->
  kern_tokenize all_cats (note_token n) = Ok (str (print_note n)).
Proof.
  intros Hok Hs. pose proof Hok as [Hdur [Hp [Hc [Hd [Hcd [Hde [Hnd Hdisp]]]]]]].
  unfold kern_tokenize, ekern_tokenize, note_token. cbn [export_token map_res]. unfold export_noterest. cbn [nr_pd nr_deco].
  rewrite !filter_keep_all. rewrite (stable_sort_id sub_cat_leb _ (note_pd_sorted n)). rewrite (stable_sort_id sub_full_leb _ Hs).
  cbv iota beta zeta.
  set (parts := map st_enc (note_pd n)). set (dparts := map st_enc (map deco_of (nt_decos n))).
  (* the pieces and their characters *)
  assert (Eparts : parts = match nt_dur n with Some d => dur_tokens d | None => [] end ++ [str (pitch_chars n)]
                           ++ match acc_chars n with [] => [] | a => [str a] end).
  { unfold parts, note_pd. rewrite !map_app, mk_durs_enc. cbn [map st_enc]. destruct (acc_chars n); reflexivity. }
  assert (Edparts : dparts = map (fun c => String c ""%string) (nt_decos n)).
  { unfold dparts. rewrite map_map. reflexivity. }
  assert (Hparts_ne : parts <> []) by (rewrite Eparts; intros H; apply app_eq_nil in H; destruct H as [_ H]; discriminate H).
  assert (Hplain_parts : forallb (fun s => forallb plainc (chars_of_string s)) parts = true).
  { rewrite Eparts, !forallb_app. apply andb_true_iff. split; [|apply andb_true_iff; split].
    - destruct (nt_dur n) as [d|]; [apply dur_tokens_plain; exact Hdur | reflexivity].
    - cbn [forallb]. unfold str. rewrite chars_of_string_of_chars. unfold pitch_chars.
      rewrite (forallb_repeat plainc (nt_pitch n) (S (nt_oct n))); [reflexivity|]. apply class_plain. rewrite Hp. now rewrite !orb_true_r.
    - unfold acc_chars. destruct (nt_core n ++ nt_disp n) eqn:Ea; [reflexivity|]. cbn [forallb]. unfold str. rewrite chars_of_string_of_chars.
      rewrite <- Ea, forallb_app, (core_plain _ Hc), (disp_plain _ Hd). reflexivity. }
  assert (Hplain_dparts : forallb (fun s => forallb plainc (chars_of_string s)) dparts = true).
  { rewrite Edparts. clear -Hde. induction (nt_decos n) as [|x xs IH]; [reflexivity|]. simpl in Hde. apply andb_true_iff in Hde. destruct Hde as [Hx Hxs].
    cbn [map forallb chars_of_string]. rewrite (class_plain x) by (rewrite Hx; now rewrite !orb_true_r). simpl. apply IH. exact Hxs. }
  assert (Hav : forall l, forallb (fun s => forallb plainc (chars_of_string s)) l = true -> forallb (avoids amp) l = true /\ forallb (avoids mid0) l = true).
  { induction l as [|x l IH]; intros H; [split; reflexivity|]. cbn [forallb] in *. apply andb_true_iff in H. destruct H as [Hx Hl].
    destruct (IH Hl) as [I1 I2]. destruct (plain_avoids _ Hx) as [A1 A2]. unfold str in A1, A2. rewrite string_of_chars_of_string in A1, A2.
    rewrite I1, I2. unfold amp, mid0. rewrite A1, A2. split; reflexivity. }
  destruct (Hav _ Hplain_parts) as [Pa Pm]. destruct (Hav _ Hplain_dparts) as [Da Dm].
  (* the content is never empty: it holds the pitch letters *)
  assert (Hjoin_ne : forall tl, (join token_separator parts ++ tl)%string <> ""%string).
  { intros tl H. assert (Hin : In (str (pitch_chars n)) parts) by (rewrite Eparts; apply in_app_iff; right; now left).
    pose proof (join_app_empty _ _ _ H _ Hin) as Hp0. unfold pitch_chars in Hp0. discriminate Hp0. }
  set (C := if String.eqb (join decoration_separator dparts) "" then join token_separator parts
            else (join token_separator parts ++ decoration_separator ++ join decoration_separator dparts)%string).
  assert (HC : String.eqb C "" = false).
  { destruct (String.eqb C "") eqn:E0; [|reflexivity]. apply String.eqb_eq in E0. exfalso. unfold C in E0.
    destruct (String.eqb (join decoration_separator dparts) "").
    - apply (Hjoin_ne ""%string). rewrite StringProofs.append_nil_r. exact E0.
    - exact (Hjoin_ne _ E0). }
  rewrite HC. cbn [map_res]. unfold C.
  rewrite (strip_joined parts dparts Hparts_ne Pa Pm Da Dm). f_equal.
  (* concatenating the pieces gives back the canonical text *)
  rewrite Eparts, Edparts, concat_single_chars, !concat_app_list. unfold print_note. rewrite !str_app. cbn [String.concat].
  assert (E1 : String.concat "" match nt_dur n with Some d => dur_tokens d | None => [] end
               = str match nt_dur n with Some d => print_dur d | None => [] end).
  { destruct (nt_dur n) as [d|]; [|reflexivity]. rewrite <- (concat_dur_tokens d Hdur). unfold str. now rewrite string_of_chars_of_string. }
  assert (E2 : String.concat "" match acc_chars n with [] => [] | a0 :: l => [str (a0 :: l)] end = str (acc_chars n)).
  { destruct (acc_chars n); reflexivity. }
  rewrite E1, E2. rewrite !StringProofs.append_assoc. reflexivity.
Qed.


(* ---- C01 for a single note: export o import o export = export *)
Theorem note_export_fixed_point n : note_ok n -> canonical_order n ->
  exists text, kern_tokenize all_cats (note_token n) = Ok text /\
               kern_recognise text = KTok (note_token n) /\
               (forall t', kern_recognise text = KTok t' -> kern_tokenize all_cats t' = Ok text).
Proof.
  intros Hok Hs. exists (str (print_note n)). split; [apply kern_export_canonical; assumption|].
  split; [apply recognise_print; exact Hok|]. intros t' H. rewrite (recognise_print n Hok) in H. injection H as <-.
  apply kern_export_canonical; assumption.
Qed.

Example canonical_order_example :
  canonical_order {| nt_dur := None; nt_pitch := "c"; nt_oct := 0; nt_core := []; nt_disp := []; nt_decos := chars_of_string ";JL" |}.
Proof. unfold canonical_order. cbn. repeat constructor. Qed.
