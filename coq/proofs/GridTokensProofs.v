(* C02 / C03 for EVERY imported document (any number of spines, splits, joins, comments, malformed cells): the tree holds,
   stage by stage and cell by cell, exactly the token of the source cell under the header of its spine -
   stage k+1 is line k (blank lines skipped), its i-th node is the i-th cell of that line, and the node's token is
     the header token               for a cell starting with **,
     the spine-operator token       for *^ *v *- *+ *x,
     the field-comment token        for a cell starting with !,
     the token the importer of the node's spine header builds from the cell text (or an ErrorToken carrying the cell text
     and the line number when that importer rejects it) otherwise;
   a '!!' line is one node holding the stripped line as a comment token. *)
From Coq Require Import List String Ascii Bool Arith Lia.
From KV Require Import Strings CatGen Cat Token SpineImpGen SpineImp KernTok Importer TreeProofs ImporterProofs ErrorProofs HeaderSelfProofs.
Import ListNotations.
Open Scope list_scope.

Definition cell_rel (bad : list string) (d : doc) (rowno : nat) (id : nat) (c : string) : Prop :=
  exists t, n_tok (get_node d id) = Some t /\
  if startswith "**" c then (exists col, t = THeader c col) /\ n_header (get_node d id) = Some id
  else if mem_str c spine_operations then t = TSimple c SPINE_OPERATION "SpineOperationToken"
  else if startswith "!" c then t = TSimple c FIELD_COMMENTS "FieldCommentToken"
  else exists hid, n_header (get_node d id) = Some hid /\
       match import_cell bad (header_text d hid) c with
       | RTok t' => t = t' | RFail => t = TError c rowno | ROut => False end.

Definition grows (d d' : doc) : Prop :=
  List.length (d_nodes d) <= List.length (d_nodes d') /\
  forall i, i < List.length (d_nodes d) ->
    n_tok (get_node d' i) = n_tok (get_node d i) /\ n_header (get_node d' i) = n_header (get_node d i).

Lemma grows_refl d : grows d d. Proof. split; [lia | intros i _; split; reflexivity]. Qed.
Lemma grows_trans a b c : grows a b -> grows b c -> grows a c.
Proof.
  intros [L1 H1] [L2 H2]. split; [lia|]. intros i Hi. destruct (H1 i Hi) as [A1 B1]. destruct (H2 i ltac:(lia)) as [A2 B2].
  split; congruence.
Qed.
Lemma grows_same d d' : same_nodes_hdr d d' -> grows d d'.
Proof.
  intros [L H]. split; [lia|]. intros i _. destruct (H i) as [C Hh]. unfold core in C. injection C as _ _ Et _ _. split; assumption.
Qed.
Lemma grows_add d st p t lo sg h d' id : tree_ok d -> p < List.length (d_nodes d) -> add_node d st p t lo sg h = IOk (d', id) -> grows d d'.
Proof.
  intros T Hp Ha. destruct (add_node_spec _ _ _ _ _ _ _ _ _ T Hp Ha) as [Eid [El [_ [_ [_ [_ [_ [_ Hold]]]]]]]].
  split; [lia|]. intros i Hi. destruct (Hold i ltac:(lia)) as [C Hh]. unfold core in C. injection C as _ _ Et _ _. split; assumption.
Qed.

Lemma header_text_grows d d' h : grows d d' -> h < List.length (d_nodes d) -> header_text d' h = header_text d h.
Proof. intros [_ H] Hh. unfold header_text. destruct (H h Hh) as [-> _]. reflexivity. Qed.

Lemma cell_rel_grows bad d d' r id c : hdr_ok d -> grows d d' -> id < List.length (d_nodes d) ->
  cell_rel bad d r id c -> cell_rel bad d' r id c.
Proof.
  intros Hd G Hid [t [Et R]]. pose proof G as [_ H]. destruct (H id Hid) as [A B]. exists t. split; [congruence|].
  destruct (startswith "**" c); [rewrite B; exact R|]. destruct (mem_str c spine_operations); [exact R|].
  destruct (startswith "!" c); [exact R|]. destruct R as [hid [Hh R]]. exists hid. split; [congruence|].
  destruct (Hd id hid Hid Hh) as [Hle _]. rewrite (header_text_grows d d' hid G ltac:(lia)). exact R.
Qed.

Lemma cells_rel_grows bad d d' r : hdr_ok d -> grows d d' -> forall ids row, Forall (fun id => id < List.length (d_nodes d)) ids ->
  Forall2 (cell_rel bad d r) ids row -> Forall2 (cell_rel bad d' r) ids row.
Proof.
  intros Hd G ids row Hb F. induction F as [|id x ids0 row0 Hx F IHF]; [constructor|]. inversion Hb; subst.
  constructor; [eapply cell_rel_grows; eassumption | apply IHF; assumption].
Qed.

(* ---- one cell *)
Definition stages_after (d : doc) (st id : nat) : list (list nat) :=
  if Nat.eqb st (List.length (d_stages d)) then d_stages d ++ [[id]] else update_nth st (fun l => l ++ [id]) (d_stages d).

Lemma step_cell_grid bad row s icol col s' b : state_ok s -> hdr_ok (i_doc s) -> step_cell bad row s icol col = IOk (s', b) ->
  grows (i_doc s) (i_doc s') /\ List.length (d_nodes (i_doc s')) = S (List.length (d_nodes (i_doc s))) /\
  cell_rel bad (i_doc s') (i_row s) (List.length (d_nodes (i_doc s))) col /\
  i_row s' = i_row s /\ i_stage s' = i_stage s /\
  d_stages (i_doc s') = stages_after (i_doc s) (i_stage s) (List.length (d_nodes (i_doc s))).
Proof.
  intros [T Hn Hp Hh] Hd. unfold step_cell, cell_rel.
  destruct (startswith "**" col) eqn:E1.
  - destruct (add_node _ _ _ _ _ _ _) as [[d1 id]| |] eqn:Ha; try discriminate.
    assert (T0 : tree_ok (set_header_stage (i_doc s) (i_stage s))) by (eapply tree_ok_same_links; [apply links_set_header_stage | exact T]).
    destruct (add_node_spec _ _ _ _ _ _ _ _ _ T0 Hh Ha) as [Eid [El [_ [_ [Et [_ [_ [_ Hold]]]]]]]].
    pose proof (add_node_stages _ _ _ _ _ _ _ _ _ Ha) as Es. cbn [set_header_stage d_stages d_nodes] in Eid, Es.
    intros H. injection H as <- <-. unfold push_next, set_doc. cbn [i_doc i_row i_stage].
    assert (Lh : List.length (d_nodes (set_header_self d1 id)) = S id) by (cbn [set_header_self set_nodes d_nodes]; rewrite update_nth_length; exact El).
    split; [|split; [rewrite Lh, Eid; reflexivity|split; [|split; [reflexivity|split; [reflexivity|]]]]].
    + split; [rewrite Lh; lia|]. intros i Hi.
      destruct (links_set_header_self d1 id) as [_ HS]. destruct (HS i) as [C _]. unfold core in C. injection C as _ _ Etok _ _.
      rewrite get_set_header_self. replace (Nat.eqb i id) with false by (symmetry; apply Nat.eqb_neq; lia). cbn [andb].
      destruct (Hold i ltac:(lia)) as [C1 Hh1]. unfold core in C1. injection C1 as _ _ Et1 _ _. rewrite Etok, Et1, Hh1. split; reflexivity.
    + rewrite <- Eid. exists (THeader col icol). split.
      * destruct (links_set_header_self d1 id) as [_ HS]. destruct (HS id) as [C _]. unfold core in C. injection C as _ _ Etok _ _. rewrite Etok. exact Et.
      * split; [exists icol; reflexivity|]. rewrite get_set_header_self, Nat.eqb_refl, El.
        replace (Nat.ltb id (S id)) with true by (symmetry; apply Nat.ltb_lt; lia). reflexivity.
    + cbn [set_header_self set_nodes d_stages]. rewrite Es. unfold stages_after. rewrite <- Eid. reflexivity.
  - destruct (mem_str col spine_operations) eqn:E2.
    + destruct (i_prev s) as [prev|] eqn:Ep; [|discriminate].
      destruct (Nat.leb _ icol); [discriminate|].
      assert (Hpar : nth icol prev 0 < List.length (d_nodes (i_doc s))) by (apply nth_ids_ok; [assumption | apply T]).
      destruct (add_node _ _ _ _ _ _ _) as [[d1 id]| |] eqn:Ha; try discriminate.
      destruct (add_node_spec _ _ _ _ _ _ _ _ _ T Hpar Ha) as [Eid [El [_ [_ [Et [_ [_ [_ Hold]]]]]]]].
      pose proof (add_node_stages _ _ _ _ _ _ _ _ _ Ha) as Es.
      pose proof (grows_add _ _ _ _ _ _ _ _ _ T Hpar Ha) as G1.
      assert (Gen : forall d2, same_nodes_hdr d1 d2 -> d_stages d2 = d_stages d1 ->
                grows (i_doc s) d2 /\ List.length (d_nodes d2) = S (List.length (d_nodes (i_doc s))) /\
                (exists t, n_tok (get_node d2 (List.length (d_nodes (i_doc s)))) = Some t /\ t = TSimple col SPINE_OPERATION "SpineOperationToken") /\
                d_stages d2 = stages_after (i_doc s) (i_stage s) (List.length (d_nodes (i_doc s)))).
      { intros d2 S2 St2. split; [eapply grows_trans; [exact G1 | apply grows_same; exact S2]|].
        destruct S2 as [L2 H2]. split; [rewrite L2, El, Eid; reflexivity|]. split.
        - rewrite <- Eid. destruct (H2 id) as [C _]. unfold core in C. injection C as _ _ Et2 _ _. eexists. split; [rewrite Et2; exact Et | reflexivity].
        - rewrite St2, Es. unfold stages_after. rewrite <- Eid. reflexivity. }
      destruct (String.eqb col "*-").
      { intros H. injection H as <- <-. unfold set_doc. cbn [i_doc i_row i_stage].
        destruct (Gen (match n_lastop (get_node d1 id) with Some op => set_cancelled d1 op (i_stage s) | None => d1 end)) as [A [B [C D]]];
          [destruct (n_lastop _); hdr_same | destruct (n_lastop _); reflexivity|].
        split; [exact A|]. split; [exact B|]. split; [exact C|]. split; [reflexivity|]. split; [reflexivity | exact D]. }
      destruct (String.eqb col "*+" || String.eqb col "*^").
      { intros H. injection H as <- <-. unfold push_next, set_doc. cbn [i_doc i_row i_stage].
        destruct (Gen d1 (hdr_same_refl d1) eq_refl) as [A [B [C D]]].
        split; [exact A|]. split; [exact B|]. split; [exact C|]. split; [reflexivity|]. split; [reflexivity | exact D]. }
      destruct (String.eqb col "*v"); [|discriminate].
      intros H. injection H as <- <-.
      destruct (Gen (match n_lastop (get_node d1 id) with Some op => set_cancelled d1 op (i_stage s) | None => d1 end)) as [A [B [C D]]];
        [destruct (n_lastop _); hdr_same | destruct (n_lastop _); reflexivity|].
      destruct (match icol with O => true | S _ => _ end); unfold push_next, set_doc; cbn [i_doc i_row i_stage];
        (split; [exact A|]; split; [exact B|]; split; [exact C|]; split; [reflexivity|]; split; [reflexivity | exact D]).
    + match goal with |- context [match ?X with IOk _ => _ | IErr _ => _ | IOut => _ end = _] => destruct X as [[tok is_err]| |] eqn:Etok end;
        try discriminate.
      destruct (i_prev s) as [prev|] eqn:Ep; [|discriminate].
      destruct (Nat.leb _ icol) eqn:Eleb; [discriminate|].
      assert (Hpar : nth icol prev 0 < List.length (d_nodes (i_doc s))) by (apply nth_ids_ok; [assumption | apply T]).
      destruct (add_node _ _ _ _ _ _ _) as [[d1 id]| |] eqn:Ha; try discriminate.
      destruct (add_node_spec _ _ _ _ _ _ _ _ _ T Hpar Ha) as [Eid [El [_ [_ [Et [Eh [_ [_ Hold]]]]]]]].
      pose proof (add_node_stages _ _ _ _ _ _ _ _ _ Ha) as Es.
      pose proof (grows_add _ _ _ _ _ _ _ _ _ T Hpar Ha) as G1.
      intros H. injection H as <- <-. unfold push_next, set_doc. cbn [i_doc i_row i_stage].
      set (d2 := if is_err then add_error d1 id else d1).
      assert (S2 : same_nodes_hdr d1 d2) by (unfold d2; destruct is_err; hdr_same).
      assert (St2 : d_stages d2 = d_stages d1) by (unfold d2; destruct is_err; reflexivity).
      match goal with |- grows _ ?D /\ _ => set (d3 := D) end.
      assert (S3 : same_nodes_hdr d1 d3 /\ d_stages d3 = d_stages d1).
      { unfold d3. destruct (cat_beq _ BARLINES || _); [split; assumption|]. destruct (String.eqb _ "BoundingBoxToken"); [split; assumption|].
        destruct (is_signature_token tok); [split; [eapply hdr_same_trans; [exact S2 | hdr_same] | exact St2] | split; assumption]. }
      destruct S3 as [S3 St3]. pose proof S3 as [L3 H3].
      split; [eapply grows_trans; [exact G1 | apply grows_same; exact S3]|].
      split; [rewrite L3, El, Eid; reflexivity|].
      split; [|split; [reflexivity|split; [reflexivity|rewrite St3, Es; unfold stages_after; rewrite <- Eid; reflexivity]]].
      rewrite <- Eid. destruct (H3 id) as [C Hh3]. unfold core in C. injection C as _ _ Et3 _ _.
      exists tok. split; [rewrite Et3; exact Et|]. rewrite Hh3, Eh.
      destruct (startswith "!" col) eqn:E3.
      * injection Etok as <- _. reflexivity.
      * destruct (n_header (get_node (i_doc s) (nth icol prev 0))) as [hid|] eqn:Ehid; [|discriminate].
        exists hid. split; [reflexivity|].
        destruct (Hd _ hid Hpar Ehid) as [Hle _].
        assert (G3 : grows (i_doc s) d3) by (eapply grows_trans; [exact G1 | apply grows_same; exact S3]).
        rewrite (header_text_grows _ _ hid G3 ltac:(lia)).
        destruct (import_cell bad _ col) as [t| |]; try discriminate; injection Etok as <- _; reflexivity.
Qed.

(* ---- the cells of one line *)
Definition cur_stage (cur : list nat) : list (list nat) := match cur with [] => [] | _ => [cur] end.

Lemma stages_after_cur base cur d id : d_stages d = base ++ cur_stage cur ->
  stages_after d (List.length base) id = base ++ [cur ++ [id]].
Proof.
  intros E. unfold stages_after. rewrite E, app_length. destruct cur as [|x cur]; cbn [cur_stage List.length].
  - rewrite Nat.add_0_r, Nat.eqb_refl, app_nil_r. reflexivity.
  - replace (Nat.eqb (List.length base) (List.length base + 1)) with false by (symmetry; apply Nat.eqb_neq; lia).
    exact (update_nth_app_last (fun l => l ++ [id]) base (x :: cur)).
Qed.

Lemma cells_grid bad row : forall cols s icol bar s' b base cur done,
  state_ok s -> hdr_ok (i_doc s) -> i_stage s = List.length base -> d_stages (i_doc s) = base ++ cur_stage cur ->
  Forall2 (cell_rel bad (i_doc s) (i_row s)) cur done -> Forall (fun id => id < List.length (d_nodes (i_doc s))) cur ->
  step_cells bad row s icol cols bar = IOk (s', b) ->
  exists cur', grows (i_doc s) (i_doc s') /\ i_stage s' = i_stage s /\ i_row s' = i_row s /\
    d_stages (i_doc s') = base ++ cur_stage cur' /\ Forall2 (cell_rel bad (i_doc s') (i_row s)) cur' (done ++ cols) /\
    Forall (fun id => id < List.length (d_nodes (i_doc s'))) cur' /\ cur' = cur ++ seq (List.length (d_nodes (i_doc s))) (List.length cols).
Proof.
  induction cols as [|c cols IH]; intros s icol bar s' b base cur done Hs Hd Hst Hsg F Hb; cbn [step_cells].
  - intros H. injection H as <- <-. exists cur.
    split; [apply grows_refl|]. split; [reflexivity|]. split; [reflexivity|]. split; [exact Hsg|].
    split; [rewrite app_nil_r; exact F|]. split; [exact Hb|]. cbn [List.length seq]. now rewrite app_nil_r.
  - destruct (step_cell bad row s icol c) as [[s1 b1]| |] eqn:Hc; try discriminate.
    destruct (step_cell_grid _ _ _ _ _ _ _ Hs Hd Hc) as [G1 [L1 [R1 [Er1 [Es1 St1]]]]].
    pose proof (step_cell_ok _ _ _ _ _ _ _ Hs Hc) as Hs1. pose proof (step_cell_hdr _ _ _ _ _ _ _ Hs Hd Hc) as Hd1.
    rewrite Hst in St1. rewrite (stages_after_cur base cur _ _ Hsg) in St1.
    intros H.
    destruct (IH s1 (S icol) (bar || b1) s' b base (cur ++ [List.length (d_nodes (i_doc s))]) (done ++ [c]) Hs1 Hd1) as [cur' [G2 [E2 [Er2 [St2 [F2 [B2 K2]]]]]]].
    + congruence.
    + replace (cur_stage (cur ++ [List.length (d_nodes (i_doc s))])) with [cur ++ [List.length (d_nodes (i_doc s))]] by (destruct cur; reflexivity).
      exact St1.
    + rewrite Er1. apply Forall2_app.
      * exact (cells_rel_grows bad (i_doc s) (i_doc s1) (i_row s) Hd G1 cur done Hb F).
      * constructor; [exact R1 | constructor].
    + apply Forall_app. split; [|constructor; [lia | constructor]].
      eapply Forall_impl; [|exact Hb]. intros a Ha. cbv beta in Ha. lia.
    + exact H.
    + exists cur'. rewrite <- app_assoc in F2. cbn [app] in F2. rewrite Er1 in *.
      split; [eapply grows_trans; eassumption|]. split; [congruence|]. split; [congruence|]. split; [exact St2|]. split; [exact F2|].
      split; [exact B2|]. rewrite K2, L1, <- app_assoc. reflexivity.
Qed.

(* ---- every cell node has a spine header (the parents handed from line to line always have one) *)
Definition hashdr (d : doc) (id : nat) : Prop := n_header (get_node d id) <> None.
Definition hh (s : istate) : Prop :=
  Forall (hashdr (i_doc s)) (i_next s) /\ match i_prev s with Some l => Forall (hashdr (i_doc s)) l | None => True end.

Lemma hashdr_grows d d' l : grows d d' -> Forall (fun id => id < List.length (d_nodes d)) l -> Forall (hashdr d) l -> Forall (hashdr d') l.
Proof.
  intros [_ G] Hb H. induction H as [|x l Hx H IH]; [constructor|]. inversion Hb; subst. constructor; [|apply IH; assumption].
  unfold hashdr in *. destruct (G x ltac:(assumption)) as [_ ->]. exact Hx.
Qed.

Lemma step_cell_hh bad row s icol col s' b : state_ok s -> hdr_ok (i_doc s) -> hh s -> step_cell bad row s icol col = IOk (s', b) ->
  hh s' /\ hashdr (i_doc s') (List.length (d_nodes (i_doc s))).
Proof.
  intros Hs Hd [Hn Hp] Hc. pose proof Hs as [T Bn Bp Hh].
  destruct (step_cell_grid _ _ _ _ _ _ _ Hs Hd Hc) as [G [L [R _]]].
  assert (Hnew : hashdr (i_doc s') (List.length (d_nodes (i_doc s)))).
  { (* from the construction of the node *)
    revert Hc. unfold step_cell.
    destruct (startswith "**" col) eqn:E1.
    - destruct (add_node _ _ _ _ _ _ _) as [[d1 id]| |] eqn:Ha; try discriminate.
      assert (T0 : tree_ok (set_header_stage (i_doc s) (i_stage s))) by (eapply tree_ok_same_links; [apply links_set_header_stage | exact T]).
      destruct (add_node_spec _ _ _ _ _ _ _ _ _ T0 Hh Ha) as [Eid [El _]]. cbn [set_header_stage d_nodes] in Eid.
      intros H. injection H as <- _. unfold push_next, set_doc, hashdr. cbn [i_doc]. rewrite <- Eid.
      rewrite get_set_header_self, Nat.eqb_refl, El. replace (Nat.ltb id (S id)) with true by (symmetry; apply Nat.ltb_lt; lia). discriminate.
    - destruct (mem_str col spine_operations) eqn:E2.
      + destruct (i_prev s) as [prev|] eqn:Ep; [|discriminate].
        destruct (Nat.leb (List.length prev) icol) eqn:El0; [discriminate|]. apply Nat.leb_gt in El0.
        assert (Hpar : nth icol prev 0 < List.length (d_nodes (i_doc s))) by (apply nth_ids_ok; [assumption | apply T]).
        assert (Hph : hashdr (i_doc s) (nth icol prev 0)) by (rewrite Forall_forall in Hp; apply Hp; apply nth_In; exact El0).
        destruct (add_node _ _ _ _ _ _ _) as [[d1 id]| |] eqn:Ha; try discriminate.
        destruct (add_node_spec _ _ _ _ _ _ _ _ _ T Hpar Ha) as [Eid [El [_ [_ [_ [Eh _]]]]]].
        assert (Gen : forall d2, same_nodes_hdr d1 d2 -> hashdr d2 (List.length (d_nodes (i_doc s)))).
        { intros d2 [_ H2]. unfold hashdr. rewrite <- Eid. destruct (H2 id) as [_ ->]. rewrite Eh. exact Hph. }
        destruct (String.eqb col "*-"); [intros H; injection H as <- _; unfold set_doc; cbn [i_doc]; apply Gen; destruct (n_lastop _); hdr_same|].
        destruct (String.eqb col "*+" || String.eqb col "*^"); [intros H; injection H as <- _; unfold push_next, set_doc; cbn [i_doc]; apply Gen; hdr_same|].
        destruct (String.eqb col "*v"); [|discriminate]. intros H. injection H as <- _.
        destruct (match icol with O => true | S _ => _ end); unfold push_next, set_doc; cbn [i_doc]; apply Gen; destruct (n_lastop _); hdr_same.
      + match goal with |- context [match ?X with IOk _ => _ | IErr _ => _ | IOut => _ end = _] => destruct X as [[tok is_err]| |] eqn:Etok end;
          try discriminate.
        destruct (i_prev s) as [prev|] eqn:Ep; [|discriminate].
        destruct (Nat.leb (List.length prev) icol) eqn:El0; [discriminate|]. apply Nat.leb_gt in El0.
        assert (Hpar : nth icol prev 0 < List.length (d_nodes (i_doc s))) by (apply nth_ids_ok; [assumption | apply T]).
        assert (Hph : hashdr (i_doc s) (nth icol prev 0)) by (rewrite Forall_forall in Hp; apply Hp; apply nth_In; exact El0).
        destruct (add_node _ _ _ _ _ _ _) as [[d1 id]| |] eqn:Ha; try discriminate.
        destruct (add_node_spec _ _ _ _ _ _ _ _ _ T Hpar Ha) as [Eid [El [_ [_ [_ [Eh _]]]]]].
        intros H. injection H as <- _. unfold push_next, set_doc. cbn [i_doc].
        set (d2 := if is_err then add_error d1 id else d1).
        assert (S2 : same_nodes_hdr d1 d2) by (unfold d2; destruct is_err; hdr_same).
        match goal with |- hashdr ?D _ => set (d3 := D) end.
        assert (S3 : same_nodes_hdr d1 d3).
        { unfold d3. destruct (cat_beq _ BARLINES || _); [exact S2|]. destruct (String.eqb _ "BoundingBoxToken"); [exact S2|].
          destruct (is_signature_token tok); [eapply hdr_same_trans; [exact S2 | hdr_same] | exact S2]. }
        destruct S3 as [_ H3]. unfold hashdr. rewrite <- Eid. destruct (H3 id) as [_ ->]. rewrite Eh. exact Hph. }
  split; [|exact Hnew].
  (* the lists of the new state: old ids (still with their headers) and possibly the new id *)
  assert (Old : forall l, Forall (fun id => id < List.length (d_nodes (i_doc s))) l -> Forall (hashdr (i_doc s)) l -> Forall (hashdr (i_doc s')) l)
    by (intros l; apply hashdr_grows; exact G).
  assert (Eprev : i_prev s' = i_prev s /\ (i_next s' = i_next s \/ i_next s' = i_next s ++ [List.length (d_nodes (i_doc s))] \/
                                          i_next s' = i_next s ++ [List.length (d_nodes (i_doc s)); List.length (d_nodes (i_doc s))])).
  { revert Hc. unfold step_cell.
    destruct (startswith "**" col).
    - destruct (add_node _ _ _ _ _ _ _) as [[d1 id]| |] eqn:Ha; try discriminate.
      assert (T0 : tree_ok (set_header_stage (i_doc s) (i_stage s))) by (eapply tree_ok_same_links; [apply links_set_header_stage | exact T]).
      destruct (add_node_spec _ _ _ _ _ _ _ _ _ T0 Hh Ha) as [Eid _]. cbn [set_header_stage d_nodes] in Eid.
      intros H. injection H as <- _. unfold push_next, set_doc. cbn [i_prev i_next]. rewrite <- Eid. split; [reflexivity | right; left; reflexivity].
    - destruct (mem_str col spine_operations).
      + destruct (i_prev s) as [prev|] eqn:Ep; [|discriminate]. destruct (Nat.leb _ icol); [discriminate|].
        assert (Hpar : nth icol prev 0 < List.length (d_nodes (i_doc s))) by (apply nth_ids_ok; [assumption | apply T]).
        destruct (add_node _ _ _ _ _ _ _) as [[d1 id]| |] eqn:Ha; try discriminate.
        destruct (add_node_spec _ _ _ _ _ _ _ _ _ T Hpar Ha) as [Eid _].
        destruct (String.eqb col "*-"); [intros H; injection H as <- _; unfold set_doc; cbn [i_prev i_next]; split; [first [exact Ep | reflexivity] | left; reflexivity]|].
        destruct (String.eqb col "*+" || String.eqb col "*^"); [intros H; injection H as <- _; unfold push_next, set_doc; cbn [i_prev i_next]; rewrite <- Eid; split; [first [exact Ep | reflexivity] | right; right; reflexivity]|].
        destruct (String.eqb col "*v"); [|discriminate]. intros H. injection H as <- _.
        destruct (match icol with O => true | S _ => _ end); unfold push_next, set_doc; cbn [i_prev i_next]; rewrite <- ?Eid;
          (split; [first [exact Ep | reflexivity] | first [right; left; reflexivity | left; reflexivity]]).
      + match goal with |- context [match ?X with IOk _ => _ | IErr _ => _ | IOut => _ end = _] => destruct X as [[tok is_err]| |] end;
          try discriminate.
        destruct (i_prev s) as [prev|] eqn:Ep; [|discriminate]. destruct (Nat.leb _ icol); [discriminate|].
        assert (Hpar : nth icol prev 0 < List.length (d_nodes (i_doc s))) by (apply nth_ids_ok; [assumption | apply T]).
        destruct (add_node _ _ _ _ _ _ _) as [[d1 id]| |] eqn:Ha; try discriminate.
        destruct (add_node_spec _ _ _ _ _ _ _ _ _ T Hpar Ha) as [Eid _].
        intros H. injection H as <- _. unfold push_next, set_doc. cbn [i_prev i_next]. rewrite <- Eid. split; [first [exact Ep | reflexivity] | right; left; reflexivity]. }
  destruct Eprev as [Ep En]. split.
  - destruct En as [-> | [-> | ->]]; [apply Old; assumption | |]; apply Forall_app; split; try (apply Old; assumption);
      repeat constructor; exact Hnew.
  - rewrite Ep. destruct (i_prev s) as [l|]; [apply Old; assumption | exact I].
Qed.

Lemma cells_hh bad row : forall cols s icol bar s' b, state_ok s -> hdr_ok (i_doc s) -> hh s ->
  step_cells bad row s icol cols bar = IOk (s', b) ->
  hh s' /\ Forall (hashdr (i_doc s')) (seq (List.length (d_nodes (i_doc s))) (List.length cols)).
Proof.
  induction cols as [|c cols IH]; intros s icol bar s' b Hs Hd Hh; cbn [step_cells List.length seq].
  - intros H. injection H as <- _. split; [exact Hh | constructor].
  - destruct (step_cell bad row s icol c) as [[s1 b1]| |] eqn:Hc; try discriminate.
    destruct (step_cell_hh _ _ _ _ _ _ _ Hs Hd Hh Hc) as [Hh1 Hnew].
    destruct (step_cell_grid _ _ _ _ _ _ _ Hs Hd Hc) as [G1 [L1 _]].
    pose proof (step_cell_ok _ _ _ _ _ _ _ Hs Hc) as Hs1. pose proof (step_cell_hdr _ _ _ _ _ _ _ Hs Hd Hc) as Hd1.
    intros H. destruct (IH s1 _ _ _ _ Hs1 Hd1 Hh1 H) as [Hh2 F2]. split; [exact Hh2|].
    constructor; [|rewrite L1 in F2; exact F2].
    (* the header of the node just made is still there at the end of the line *)
    assert (G2 : grows (i_doc s1) (i_doc s')).
    { clear - Hs1 Hd1 H. revert H. generalize (bar || b1). generalize (S icol). revert s1 Hs1 Hd1.
      induction cols as [|c2 cols2 IH2]; intros s1 Hs1 Hd1 n0 b0; cbn [step_cells].
      - intros H. injection H as <- _. apply grows_refl.
      - destruct (step_cell bad row s1 n0 c2) as [[s2 b2]| |] eqn:Hc2; try discriminate.
        destruct (step_cell_grid _ _ _ _ _ _ _ Hs1 Hd1 Hc2) as [G _]. intros H.
        eapply grows_trans; [exact G|]. eapply IH2; [eapply step_cell_ok; eassumption | eapply step_cell_hdr; eassumption | exact H]. }
    unfold hashdr in *. destruct G2 as [_ G2]. destruct (G2 (List.length (d_nodes (i_doc s))) ltac:(lia)) as [_ ->]. exact Hnew.
Qed.

(* ---- one line *)
Definition row_rel (bad : list string) (d : doc) (rowno : nat) (ids : list nat) (row : list string) : Prop :=
  match row with
  | [] => False
  | first :: _ =>
    if startswith "!!" first
    then exists id, ids = [id] /\ n_tok (get_node d id) = Some (TSimple (strip first) LINE_COMMENTS "MetacommentToken") /\
                   n_header (get_node d id) = None
    else Forall2 (cell_rel bad d rowno) ids row /\ Forall (hashdr d) ids
  end.

Lemma row_rel_grows bad d d' r ids row : hdr_ok d -> grows d d' -> Forall (fun id => id < List.length (d_nodes d)) ids ->
  row_rel bad d r ids row -> row_rel bad d' r ids row.
Proof.
  intros Hd G Hb. unfold row_rel. destruct row as [|first rest]; [auto|]. destruct (startswith "!!" first).
  - intros [id [-> [Et Eh]]]. exists id. split; [reflexivity|]. inversion Hb; subst. destruct G as [_ H]. destruct (H id ltac:(assumption)) as [-> ->]. split; assumption.
  - intros [F H]. split; [exact (cells_rel_grows bad d d' r Hd G ids _ Hb F) | exact (hashdr_grows d d' ids G Hb H)].
Qed.

Lemma step_row_grid bad s row s' : state_ok s -> hdr_ok (i_doc s) -> hh s -> List.length (d_stages (i_doc s)) = S (i_stage s) ->
  row <> [] -> step_row bad s row = IOk s' -> hh s' /\
  exists ids, grows (i_doc s) (i_doc s') /\ d_stages (i_doc s') = d_stages (i_doc s) ++ [ids] /\
    row_rel bad (i_doc s') (i_row s) ids row /\ Forall (fun id => id < List.length (d_nodes (i_doc s'))) ids /\
    i_row s' = S (i_row s) /\ i_stage s' = S (i_stage s) /\
    (startswith "!!" (hd ""%string row) = false -> ids = seq (List.length (d_nodes (i_doc s))) (List.length row)).
Proof.
  intros Hs Hd [HHn HHp] Hlen Hne. pose proof Hs as [T Hn Hp Hh]. unfold step_row, row_rel. destruct row as [|first rest]; [contradiction|].
  set (prev := match i_next s with [] => i_prev s | n :: l0 => Some (n :: l0) end).
  assert (Hprev : match prev with Some l => ids_ok (i_doc s) l | None => True end).
  { unfold prev. destruct (i_next s) eqn:E; [exact Hp | exact Hn]. }
  assert (HHprev : match prev with Some l => Forall (hashdr (i_doc s)) l | None => True end).
  { unfold prev. destruct (i_next s) eqn:E; [exact HHp | exact HHn]. }
  clearbody prev.
  cbn [hd]. destruct (startswith "!!" first).
  - destruct (add_node _ _ _ _ _ _ _) as [[d1 id]| |] eqn:Ha; try discriminate. cbn [i_doc i_prehdr] in Ha.
    destruct (add_node_spec _ _ _ _ _ _ _ _ _ T Hh Ha) as [Eid [El [_ [_ [Et [Ehd [_ [_ Hold]]]]]]]].
    pose proof (add_node_stages _ _ _ _ _ _ _ _ _ Ha) as Es. rewrite Hlen, Nat.eqb_refl in Es.
    pose proof (grows_add _ _ _ _ _ _ _ _ _ T Hh Ha) as G.
    intros H. injection H as <-. cbn [i_doc i_row i_stage]. split.
    + split; cbn [i_doc i_next i_prev]; [constructor|]. destruct prev as [l|]; [|exact I]. exact (hashdr_grows _ _ l G Hprev HHprev).
    + exists [id].
      split; [exact G|]. split; [exact Es|]. split; [exists id; split; [reflexivity | split; [exact Et | exact Ehd]]|].
      split; [constructor; [lia | constructor]|]. split; [reflexivity|]. split; [reflexivity | discriminate].
  - set (s0 := {| i_doc := i_doc s; i_row := i_row s; i_stage := S (i_stage s); i_next := []; i_prev := prev; i_prehdr := i_prehdr s |}).
    assert (Hs0 : state_ok s0) by (apply state_ok_intro; [exact T | apply ids_ok_nil | exact Hprev | exact Hh]).
    assert (HH0 : hh s0) by (split; cbn [s0 i_doc i_next i_prev]; [constructor | exact HHprev]).
    destruct (step_cells bad (first :: rest) s0 0 (first :: rest) false) as [[s1 bar]| |] eqn:Hc; try discriminate.
    assert (X : exists cur', grows (i_doc s0) (i_doc s1) /\ i_stage s1 = i_stage s0 /\ i_row s1 = i_row s0 /\
              d_stages (i_doc s1) = d_stages (i_doc s) ++ cur_stage cur' /\ Forall2 (cell_rel bad (i_doc s1) (i_row s0)) cur' ([] ++ first :: rest) /\
              Forall (fun id => id < List.length (d_nodes (i_doc s1))) cur' /\ cur' = [] ++ seq (List.length (d_nodes (i_doc s0))) (List.length (first :: rest))).
    { apply (cells_grid bad (first :: rest) (first :: rest) s0 0 false s1 bar (d_stages (i_doc s)) [] [] Hs0 Hd).
      - cbn [s0 i_stage]. symmetry. exact Hlen.
      - cbn [s0 i_doc cur_stage]. now rewrite app_nil_r.
      - constructor.
      - constructor.
      - exact Hc. }
    destruct X as [cur [G [Est [Er [St [F [B N]]]]]]].
    destruct (cells_hh bad _ _ _ _ _ _ _ Hs0 Hd HH0 Hc) as [[HH1n HH1p] Hnewh].
    cbn [s0 i_doc i_stage i_row app] in *.
    assert (Hcurh : Forall (hashdr (i_doc s1)) cur) by (rewrite N; exact Hnewh).
    intros H. injection H as <-. cbn [i_doc i_row i_stage i_next i_prev].
    assert (Hcur : cur <> []) by (rewrite N; discriminate).
    assert (Ecs : cur_stage cur = [cur]) by (destruct cur; [contradiction | reflexivity]). rewrite Ecs in St.
    pose proof (step_cells_ok _ _ _ _ _ _ _ _ Hs0 Hc) as [T1 Hn1 Hp1 _].
    assert (Hd1 : hdr_ok (i_doc s1)) by (eapply step_cells_hdr; [exact Hs0 | exact Hd | exact Hc]).
    set (d' := if bar then push_mst (i_doc s1) (S (i_stage s)) else i_doc s1).
    assert (Gd : grows (i_doc s1) d') by (unfold d'; destruct bar; [apply grows_same; hdr_same | apply grows_refl]).
    assert (Ld : List.length (d_nodes d') = List.length (d_nodes (i_doc s1))) by (unfold d'; destruct bar; reflexivity).
    assert (Sd : d_stages d' = d_stages (i_doc s1)) by (unfold d'; destruct bar; reflexivity).
    split.
    + split.
      * exact (hashdr_grows _ _ _ Gd Hn1 HH1n).
      * destruct (i_next s1) as [|x xs]; [|destruct (i_prev s1) as [l|]; [exact (hashdr_grows _ _ l Gd Hp1 HH1p) | exact I]].
        destruct (i_prev s1) as [[|y l]|]; [constructor | constructor | exact I].
    + exists cur. split; [eapply grows_trans; eassumption|]. split; [rewrite Sd; exact St|]. split.
      * split; [exact (cells_rel_grows bad (i_doc s1) d' (i_row s) Hd1 Gd cur _ B F) | exact (hashdr_grows _ _ cur Gd B Hcurh)].
      * split; [rewrite Ld; exact B|]. split; [now rewrite Er|]. split; [exact Est | intros _; exact N].
Qed.

(* ---- all the lines *)
Fixpoint rows_rel (bad : list string) (d : doc) (k : nat) (sts : list (list nat)) (rows : list (list string)) : Prop :=
  match sts, rows with
  | [], [] => True
  | ids :: sts', row :: rows' => row_rel bad d k ids row /\ rows_rel bad d (S k) sts' rows'
  | _, _ => False
  end.

Lemma rows_rel_grows bad d d' : hdr_ok d -> grows d d' -> forall sts rows k,
  Forall (Forall (fun id => id < List.length (d_nodes d))) sts -> rows_rel bad d k sts rows -> rows_rel bad d' k sts rows.
Proof.
  intros Hd G. induction sts as [|ids sts IH]; intros rows k Hb; destruct rows as [|row rows]; cbn [rows_rel]; auto.
  inversion Hb; subst. intros [R1 R2]. split; [eapply row_rel_grows; eassumption | apply IH; assumption].
Qed.

Lemma rows_rel_snoc bad d : forall sts rows k ids row, rows_rel bad d k sts rows ->
  row_rel bad d (k + List.length rows) ids row -> rows_rel bad d k (sts ++ [ids]) (rows ++ [row]).
Proof.
  induction sts as [|i0 sts IH]; intros rows k ids row; destruct rows as [|r0 rows]; cbn [rows_rel app List.length]; try contradiction.
  - intros _ R. rewrite Nat.add_0_r in R. split; [exact R | exact I].
  - intros [R1 R2] R. split; [exact R1|]. apply IH; [exact R2|]. replace (S k + List.length rows) with (k + S (List.length rows)) by lia. exact R.
Qed.

Definition nonempty_row (row : list string) : bool := match row with [] => false | _ => true end.

Definition grid_inv (bad : list string) (s : istate) (rows : list (list string)) : Prop :=
  state_ok s /\ hdr_ok (i_doc s) /\ hh s /\
  exists sts, d_stages (i_doc s) = [0] :: sts /\ rows_rel bad (i_doc s) 1 sts rows /\
              Forall (Forall (fun id => id < List.length (d_nodes (i_doc s)))) sts /\
              i_row s = S (List.length rows) /\ i_stage s = List.length sts.

Lemma grid_inv_init bad : grid_inv bad init_state [].
Proof.
  split; [apply init_state_ok|]. split; [apply hdr_ok_empty|]. split; [split; [constructor | exact I]|]. exists []. repeat split; constructor.
Qed.

Lemma step_row_grid_inv bad s rows row s' : grid_inv bad s rows -> step_row bad s row = IOk s' ->
  grid_inv bad s' (rows ++ (if nonempty_row row then [row] else [])).
Proof.
  intros [Hs [Hd [HH [sts [Est [R [B [Er Es]]]]]]]] H.
  destruct row as [|first rest].
  - cbn in H. injection H as <-. cbn [nonempty_row]. rewrite app_nil_r. split; [exact Hs|]. split; [exact Hd|]. split; [exact HH|]. exists sts. repeat split; assumption.
  - cbn [nonempty_row].
    assert (Hlen : List.length (d_stages (i_doc s)) = S (i_stage s)) by (rewrite Est, Es; reflexivity).
    destruct (step_row_grid bad s (first :: rest) s' Hs Hd HH Hlen ltac:(discriminate) H) as [HH' [ids [G [St [RR [Bi [Er' [Es' _]]]]]]]].
    split; [eapply step_row_ok; eassumption|]. split; [eapply step_row_hdr; eassumption|]. split; [exact HH'|].
    exists (sts ++ [ids]). split; [rewrite St, Est; reflexivity|]. split.
    + apply rows_rel_snoc; [eapply rows_rel_grows; eassumption|]. rewrite Er in RR. exact RR.
    + split.
      * apply Forall_app. split; [|constructor; [exact Bi | constructor]].
        destruct G as [L _]. eapply Forall_impl; [|exact B]. intros l Hl. eapply Forall_impl; [|exact Hl]. intros a Ha. cbv beta in Ha. lia.
      * rewrite !app_length. cbn [List.length]. split; [rewrite Er', Er; lia | rewrite Es', Es; lia].
Qed.

Theorem run_rows_grid bad : forall rows' s rows s', grid_inv bad s rows -> run_rows bad s rows' = IOk s' ->
  grid_inv bad s' (rows ++ filter nonempty_row rows').
Proof.
  induction rows' as [|r rows' IH]; intros s rows s' Hg; cbn [run_rows filter].
  - intros H. injection H as <-. now rewrite app_nil_r.
  - destruct (step_row bad s r) as [s1| |] eqn:Hr; try discriminate.
    pose proof (step_row_grid_inv bad s rows r s1 Hg Hr) as H1. intros H. specialize (IH _ _ _ H1 H).
    destruct (nonempty_row r); [rewrite <- app_assoc in IH; exact IH | rewrite app_nil_r in IH; exact IH].
Qed.

(* for every text that imports: stage k+1 is the k-th non-blank line, node for cell, each node holding the token of its
   source cell under the header of its spine *)
Theorem loads_grid bad text d : loads bad text = IOk d ->
  exists sts, d_stages d = [0] :: sts /\ rows_rel bad d 1 sts (filter nonempty_row (rows_of_text text)).
Proof.
  unfold loads. destruct (run_rows bad init_state (rows_of_text text)) as [s| |] eqn:H; try discriminate.
  intros E. injection E as <-. destruct (run_rows_grid bad _ _ _ _ (grid_inv_init bad) H) as [_ [_ [_ [sts [E1 [R _]]]]]].
  exists sts. split; [exact E1 | exact R].
Qed.

Theorem load_file_grid bad bytes d : load_file bad bytes = IOk d ->
  exists sts, d_stages d = [0] :: sts /\ rows_rel bad d 1 sts (filter nonempty_row (rows_of_file bytes)).
Proof.
  unfold load_file. destruct (run_rows bad init_state (rows_of_file bytes)) as [s| |] eqn:H; try discriminate.
  intros E. injection E as <-. destruct (run_rows_grid bad _ _ _ _ (grid_inv_init bad) H) as [_ [_ [_ [sts [E1 [R _]]]]]].
  exists sts. split; [exact E1 | exact R].
Qed.

Example grid_example :
  match loads ["zz"%string] "**kern	**kern
!! a comment
4c	8e
zz	4d
*-	*-
" with
  | IOk d => d_stages d = [[0]; [1; 2]; [3]; [4; 5]; [6; 7]; [8; 9]] /\
             n_tok (get_node d 6) = Some (TError "zz" 4) /\ n_tok (get_node d 3) = Some (TSimple "!! a comment" LINE_COMMENTS "MetacommentToken")
  | _ => False
  end.
Proof. vm_compute. repeat split. Qed.

(* ---- C12 at cell level: a node is an ErrorToken exactly when its cell is an ordinary cell that the importer of its spine's
        header rejects, and then it carries the cell text and the number of its (non-blank) line *)
Theorem error_iff_rejected bad d r id c : cell_rel bad d r id c ->
  forall e l, n_tok (get_node d id) = Some (TError e l) <->
    (e = c /\ l = r /\ startswith "**" c = false /\ mem_str c spine_operations = false /\ startswith "!" c = false /\
     exists hid, n_header (get_node d id) = Some hid /\ import_cell bad (header_text d hid) c = RFail).
Proof.
  intros [t [Et R]] e l. rewrite Et. split.
  - intros H. injection H as ->.
    destruct (startswith "**" c); [destruct R as [[col Hc] _]; discriminate|].
    destruct (mem_str c spine_operations); [discriminate|]. destruct (startswith "!" c); [discriminate|].
    destruct R as [hid [Hh R]]. destruct (import_cell bad (header_text d hid) c) as [t'| |] eqn:Ei; [|injection R as -> ->|contradiction].
    + exfalso. pose proof (import_cell_not_error _ _ _ _ Ei) as Hne. subst t'. discriminate.
    + repeat split; try reflexivity. exists hid. split; assumption.
  - intros [-> [-> [E1 [E2 [E3 [hid [Hh Ei]]]]]]]. rewrite E1, E2, E3 in R. destruct R as [hid' [Hh' R]].
    rewrite Hh in Hh'. injection Hh' as <-. rewrite Ei in R. now rewrite R.
Qed.
