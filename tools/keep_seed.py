#!/usr/bin/env python3
"""tools/keep_seed.py <seed id> <prop> <worktree> <caught_by comma list or '-'> <needs ...>  -> /verif/seeded/<seed id>/"""
import json, os, shutil, sys
sid, prop, wt, caught = sys.argv[1:5]
needs = ' '.join(sys.argv[5:])
dst = f'/verif/seeded/{sid}'
os.makedirs(dst, exist_ok=True)
for f in ('patch.diff', 'demo.py', 'notes.md'):
    if os.path.exists(os.path.join(wt, 'SEED', f)):
        shutil.copy(os.path.join(wt, 'SEED', f), os.path.join(dst, f))
meta = {
    'seed': sid, 'breaks_property': prop, 'needs_to_manifest': needs,
    'source': 'independent sub-agent given only the property text and a scratch worktree',
    'confirmed_by_me': ['demo.py exits 1 with the change and 0 without (scratch worktree)',
                        'pinned suite: all 276 stable-pass tests still pass with the change',
                        'patch applied to /repo, checks run, /repo restored (git checkout -- .)'],
    'commands': [f'tools/try_seed.sh {prop} {wt}'],
    'caught_by': [] if caught == '-' else caught.split(','),
}
json.dump(meta, open(os.path.join(dst, 'meta.json'), 'w'), indent=1)
print('kept', dst, meta['caught_by'])
