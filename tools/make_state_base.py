#!/usr/bin/env python3
"""tools/make_state_base.py - (re)write coq/model/StateBase.v, the state inventory the hand-written model stands for, from the
CURRENT coq/gen/StateGen.v.  Run only after checking by hand that the model still covers every listed binding: the
obligations state_*_as_modelled compare the inventory regenerated on every run with this committed copy."""
import os, re
here = os.path.dirname(os.path.abspath(__file__))
src = open(os.path.join(here, '..', 'coq', 'gen', 'StateGen.v'), encoding='utf-8').read()
body = src.split('Open Scope string_scope.\n', 1)[1]
body = re.sub(r'Definition state_(\w+)', r'Definition modelled_state_\1', body)
out = ('(* The bindings that can hold state (class-body names, attributes stored through self / cls, module-level names,\n'
       '   decorators) in the source files the model covers, as they were when the model was written.  Written by\n'
       '   tools/make_state_base.py; compared on every run with the inventory regenerated from /repo (gen/StateGen.v). *)\n'
       'From Coq Require Import List String ZArith Bool.\nImport ListNotations.\nOpen Scope string_scope.\n' + body)
open(os.path.join(here, '..', 'coq', 'model', 'StateBase.v'), 'w', encoding='utf-8').write(out)
print('written')
