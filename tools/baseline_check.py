#!/usr/bin/env python3
"""Run the pinned suite (guard OFF) and compare with /root/.vp/BASELINE.json stable_pass."""
import json, subprocess, sys, tempfile, os, xml.etree.ElementTree as ET
base = json.load(open('/root/.vp/BASELINE.json'))
with tempfile.TemporaryDirectory() as td:
    j = os.path.join(td, 'j.xml')
    env = dict(os.environ)
    env.pop('KERNPY_VERIF', None)
    subprocess.run(['/venv/bin/python', '-m', 'pytest', '-ra', '-q', '-p', 'no:cacheprovider', '--timeout=900',
                    '--continue-on-collection-errors', '--junitxml=' + j], cwd='/repo', env=env,
                   stdout=subprocess.DEVNULL, stderr=subprocess.DEVNULL)
    passed = set()
    for tc in ET.parse(j).getroot().iter('testcase'):
        if not any(ch.tag in ('failure', 'error', 'skipped') for ch in tc):
            passed.add(f"{tc.get('classname')}::{tc.get('name')}")
missing = [t for t in base['stable_pass'] if t not in passed]
print(f"baseline stable_pass={len(base['stable_pass'])} passed_now={len(passed)} missing={len(missing)}")
for m in missing:
    print("  MISSING", m)
sys.exit(1 if missing else 0)
