#!/bin/bash
# run every registered check once (tier from $1, default quick); prints one summary line per check
cd "$(dirname "$0")/.."
tier=${1:-quick}
rc=0
for p in $(/venv/bin/python -c "import json;print(' '.join(c['property_id'] for c in json.load(open('MANIFEST.json'))['checks']))"); do
  out=$(bin/check $p $tier 2>&1); code=$?
  echo "$out" | grep -E "^\[$p\]|^VIOLATION" | cut -c1-220
  if [ $code -ne 0 ]; then rc=1; fi
done
exit $rc
