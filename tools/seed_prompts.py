#!/usr/bin/env python3
"""tools/seed_prompts.py <prefix> <pid>=<idea already used> ...  -> /tmp/<prefix>_<pid>.txt + worktree /tmp/<prefix>_wt_<pid>
Writes the self-contained brief for an independent sub-agent that seeds one property-breaking change.  The agent sees
the text of ONE property and its own scratch worktree, nothing from /verif."""
import json, subprocess, sys

TMPL = '''You are helping to evaluate a verification suite for the open-source Python library kernpy (a Humdrum **kern parser / exporter). Your job is to play the adversary: introduce ONE realistic, subtle bug.

Work ONLY inside your own scratch git worktree: {wt}  (a checkout of the library; do not touch /repo, do not read anything under /verif). Python: /venv/bin/python. To run code against your worktree use `cd {wt} && PYTHONPATH={wt} /venv/bin/python ...` (the package `kernpy` is importable from the worktree root; make sure your PYTHONPATH points at the worktree so you are not testing another copy). The existing test-suite command is: `cd {wt} && /venv/bin/python -m pytest -q -p no:cacheprovider --timeout=900 --continue-on-collection-errors -x -q 2>&1 | tail` (drop -x to see everything). NOTE: many tests fail already on the untouched tree because of relative paths to fixtures - that is expected. What matters: the set of tests that PASS on the untouched worktree must still pass after your change (record the passing set before you edit, e.g. with `-rA` or `--junitxml`, and compare afterwards).

The property your change must BREAK (it currently holds on the untouched tree, apart from documented corner cases):

  id: {pid}
  title: {title}
  statement: {statement}
  quantified over: {quant}
  anchored in: {files}

Requirements for the change:
 1. It is a small edit of the library source under {wt}/kernpy (one to a few lines, the kind of slip a maintainer could make in a refactoring or "optimisation": an off-by-one, a wrong comparison, a condition dropped or reordered, a cache or shared default, a wrong key, an early return ...). It must still import and every test that passed before must still pass.
 2. It must break the property above, but NOT in a way that ordinary use exposes at once: it should need something specific to manifest - an unusual but legal input, a particular combination of options, a multi-step sequence of calls, a particular document shape (e.g. only with a spine split, only for the last measure, only for a chord's second note, only when two options are combined, only on the second call) - or two cooperating edits that each look harmless alone.
 3. Do not edit tests, do not add dependencies, do not touch files outside {wt}.

Deliver, inside {wt}/SEED/ (create the directory):
  - patch.diff : `git -C {wt} diff` of your change to the library (library files only, no SEED files)
  - demo.py    : a small standalone program that uses only the public kernpy API, prints what it observes, and exits with status 1 when the property is violated and 0 when it holds. It must exit 1 with your change applied and 0 on the untouched tree (verify both with `git apply -R SEED/patch.diff` and `git apply SEED/patch.diff`; do NOT use `git stash`: the stash is shared between worktrees of the same repository and other agents are working in sibling worktrees).  It is run as `cd <tree> && PYTHONPATH=<tree> /venv/bin/python SEED/demo.py`.
  - notes.md   : which property clause is broken, exactly what is needed for the bug to manifest, why the existing tests do not notice, and the commands you ran (test suite before / after with the pass counts, demo before / after).
Leave the change applied in the worktree when you finish. If a test run rewrites a fixture file under test/, restore it with `git checkout -- test` before you write patch.diff. In your final answer, summarise the change in 5-10 lines (file, function, what you changed, what triggers it).

Extra notes: (a) colleagues already tried these ideas, so choose a DIFFERENT mechanism and a different trigger: {used}. (b) Known, documented corner cases of this library that you should NOT reuse as your bug: hidden barlines ('=1-') are dropped on export; '@' and the middle dot are stripped from lyrics by the plain encodings; document transposition ignores chords / explicit accidentals and mutates the source; agnostic encodings mis-read naturals; a valid token followed by garbage is accepted as its prefix; a measure-range export raises when spines carry different numbers of signature rows; a rest inside a chord does not re-import; str.splitlines breaks lines at form feed and similar characters while the file reader does not. (c) Prefer a bug in library logic (kernpy/core, kernpy/io) over one in generated parser files (kernpy/core/generated). (d) Try to make the trigger as narrow as you can while still being a legal, plausible input.'''


def main():
    prefix = sys.argv[1]
    props = {json.loads(l)['id']: json.loads(l) for l in open('/verif/properties.jsonl')}
    for arg in sys.argv[2:]:
        pid, used = arg.split('=', 1)
        p = props[pid]
        wt = f'/tmp/{prefix}_wt_{pid}'
        subprocess.run(['git', '-C', '/repo', 'worktree', 'add', '-q', wt, 'HEAD'], check=True)
        open(f'/tmp/{prefix}_{pid}.txt', 'w').write(TMPL.format(wt=wt, pid=pid, title=p['title'], statement=p['statement'],
                                                             quant=p['quantifier']['text'], files=', '.join(p['anchors']['files']), used=used))
        print(wt)


if __name__ == '__main__':
    main()
