#!/usr/bin/env python3
"""tools/check_evidence.py - refuse to commit evidence written by a run on a changed tree: every evidence file must be a
record of a clean run (all obligations discharged, no violation, nothing broken) and validate against the schema."""
import glob, json, sys
bad = []
for f in sorted(glob.glob('/verif/evidence/*.json')):
    e = json.load(open(f))
    c = e['coverage']
    if c.get('obligations') != c.get('discharged') or e['violations'] != 0 or e.get('broken'):
        bad.append((e['property_id'], c.get('obligations'), c.get('discharged'), e['violations'], len(e.get('broken', []))))
if bad:
    print('STALE EVIDENCE (re-run these checks on the clean tree):', bad)
    sys.exit(1)
print('evidence ok:', len(glob.glob('/verif/evidence/*.json')), 'files')
