"""EffectsGen: the store sites (attribute / subscript assignment, augmented assignment, del, mutating method
calls, setattr) of every function that the read-only API of kernpy can run, each classified by a syntactic
may-alias rule as writing to an object created inside the call (fresh) or not.  Fail-closed: a scope that is
listed but missing raises TranslateError.  The classification is deliberately conservative: anything whose
target is reached from a parameter, a loop variable over a parameter, a global or an attribute of a non-ephemeral
`self` is NOT fresh.
"""
import ast
import os

MUTATORS = {'append', 'extend', 'insert', 'pop', 'remove', 'clear', 'sort', 'reverse', 'update', 'add', 'discard',
            'setdefault', 'popitem', 'popleft', 'appendleft', 'put', '__setitem__', '__delitem__', '__setattr__'}

# classes whose instances are created inside a read-only call (their `self` is fresh for that call)
EPHEMERAL = {'Exporter', 'ExportOptions', 'HeaderTokenGenerator', 'Tokenizer', 'KernTokenizer', 'EkernTokenizer', 'BekernTokenizer',
             'BkernTokenizer', 'AEKernTokenizer', 'AKernTokenizer', 'TokenizerFactory', 'TokensTraversal', 'MetacommentsTraversal',
             'TraversalFactory', 'GraphvizExporter', 'PositionInStaff', 'PitchPositionReferenceSystem', 'Staff', 'GKernExporter',
             'HumdrumPitchImporter', 'AmericanPitchImporter', 'HumdrumPitchExporter', 'AmericanPitchExporter', 'PitchImporter',
             'PitchExporter', 'Generic'}

# calls whose result is a new container / object
FRESH_CALLS = {'list', 'dict', 'set', 'tuple', 'sorted', 'deepcopy', 'copy', 'defaultdict', 'deque', 'Queue', 'reversed', 'enumerate',
               'zip', 'range', 'str', 'int', 'frozenset', 'filter', 'map', 'open'}

# (file, class or None, functions or None=all) : the code the read-only API can reach
SCOPES = [
    ('kernpy/io/public.py', None, ['dumps', 'spine_types', 'is_monophonic', 'graph']),
    ('kernpy/core/generic.py', 'Generic', ['export', 'get_spine_types', 'parse_options_to_ExportOptions', 'store_graph']),
    ('kernpy/core/exporter.py', 'ExportOptions', None),
    ('kernpy/core/exporter.py', 'HeaderTokenGenerator', None),
    ('kernpy/core/exporter.py', 'Exporter', None),
    ('kernpy/core/exporter.py', None, ['empty_row', 'get_kern_from_ekern']),
    ('kernpy/core/tokenizers.py', None, None),
    ('kernpy/core/graphviz_exporter.py', 'GraphvizExporter', None),
    ('kernpy/core/document.py', 'Document', ['get_header_stage', 'get_leaves', 'get_spine_count', 'get_first_measure', 'measures_count',
                                             'get_metacomments', 'tokens_to_encodings', 'get_all_tokens', 'get_all_tokens_encodings',
                                             'get_unique_tokens', 'get_unique_token_encodings', 'get_voices', 'get_header_nodes',
                                             'get_spine_ids', 'frequencies', 'match', '__iter__', '__next__']),
    ('kernpy/core/document.py', 'Node', ['count_nodes_by_stage', 'dfs', 'dfs_iterative', '__eq__', '__ne__', '__hash__', '__str__']),
    ('kernpy/core/document.py', 'MultistageTree', ['dfs', 'dfs_iterative']),
    ('kernpy/core/document.py', 'MetacommentsTraversal', None),
    ('kernpy/core/document.py', 'TokensTraversal', None),
    ('kernpy/core/document.py', 'TraversalFactory', None),
    ('kernpy/core/tokens.py', 'TokenCategory', None),
    ('kernpy/core/tokens.py', 'TokenCategoryHierarchyMapper', None),
    ('kernpy/core/tokens.py', 'AbstractToken', ['__str__', '__eq__', '__ne__', '__hash__']),
    ('kernpy/core/tokens.py', 'SimpleToken', ['export']),
    ('kernpy/core/tokens.py', 'ErrorToken', ['export', '__str__', '__eq__']),
    ('kernpy/core/tokens.py', 'HeaderToken', ['export', '__eq__']),
    ('kernpy/core/tokens.py', 'SpineOperationToken', ['is_cancelled_at', '__eq__']),
    ('kernpy/core/tokens.py', 'CompoundToken', ['export', '__eq__']),
    ('kernpy/core/tokens.py', 'NoteRestToken', ['export', '__eq__']),
    ('kernpy/core/tokens.py', 'ChordToken', ['export', '__eq__']),
    ('kernpy/core/tokens.py', 'BoundingBoxToken', ['export', '__eq__']),
    ('kernpy/core/tokens.py', 'MHXMToken', ['export']),
    ('kernpy/core/tokens.py', 'Subtoken', ['__str__', '__eq__', '__ne__', '__hash__']),
    ('kernpy/core/gkern.py', None, ['gkern_to_g_clef_pitch', 'pitch_to_gkern_string']),
    ('kernpy/core/gkern.py', 'PositionInStaff', None),
    ('kernpy/core/gkern.py', 'PitchPositionReferenceSystem', None),
    ('kernpy/core/gkern.py', 'Clef', None),
    ('kernpy/core/gkern.py', 'ClefFactory', None),
    ('kernpy/core/gkern.py', 'Staff', None),
    ('kernpy/core/gkern.py', 'GKernExporter', None),
    ('kernpy/core/pitch_models.py', 'AgnosticPitch', ['get_chroma', 'accidentals', 'to_transposed', '__eq__', '__ne__', '__hash__', '__lt__', '__gt__', '__str__']),
    ('kernpy/core/pitch_models.py', 'HumdrumPitchImporter', None),
    ('kernpy/core/pitch_models.py', 'HumdrumPitchExporter', None),
    ('kernpy/core/pitch_models.py', 'PitchImporterFactory', None),
    ('kernpy/core/pitch_models.py', 'PitchExporterFactory', None),
]


# parameters that receive an object the caller has just created (checked at every call site in the analysed scopes)
CALLER_FRESH = {('Exporter.append_row', 'row')}


class EffectsError(Exception):
    pass


def root_and_path(node):
    """(root name or None, list of step kinds from the root to the object that is mutated)"""
    path = []
    while True:
        if isinstance(node, ast.Attribute):
            path.append('attr:' + node.attr)
            node = node.value
        elif isinstance(node, ast.Subscript):
            path.append('sub')
            node = node.value
        elif isinstance(node, ast.Call):
            path.append('call')
            node = node.func
        elif isinstance(node, ast.Name):
            return node.id, list(reversed(path))
        else:
            return None, list(reversed(path))


def is_fresh_expr(e):
    if isinstance(e, (ast.List, ast.Dict, ast.Set, ast.Tuple, ast.ListComp, ast.DictComp, ast.SetComp, ast.GeneratorExp,
                      ast.Constant, ast.JoinedStr, ast.BinOp, ast.Compare, ast.BoolOp, ast.UnaryOp)):
        return True
    if isinstance(e, ast.IfExp):
        return is_fresh_expr(e.body) and is_fresh_expr(e.orelse)
    if isinstance(e, ast.Call):
        f = e.func
        if isinstance(f, ast.Name):
            return f.id in FRESH_CALLS or f.id[:1].isupper()
        if isinstance(f, ast.Attribute):
            # Class.method(...) constructors such as ExportOptions.default(), cls(...)
            if isinstance(f.value, ast.Name) and (f.value.id[:1].isupper() or f.value.id == 'cls') and f.attr in ('default', 'new', 'create'):
                return True
            if f.attr in ('split', 'join', 'replace', 'strip', 'keys', 'values', 'items', 'copy', 'union', 'format', 'lower', 'upper',
                          'splitlines', 'get_all_tokens', 'get_unique_tokens', 'valid', 'nodes', 'all', 'children', 'leaves'):
                return True
    return False


def analyse_function(fn, cls_name, path):
    """-> list of (line, target text, fresh)"""
    params = {a.arg for a in fn.args.args + fn.args.kwonlyargs + fn.args.posonlyargs}
    if fn.args.vararg:
        params.add(fn.args.vararg.arg)
    if fn.args.kwarg:
        params.add(fn.args.kwarg.arg)
    assigned = {}     # local name -> list of value expressions (None = unknown, e.g. loop variable)
    for n in ast.walk(fn):
        if isinstance(n, ast.Assign):
            for t in n.targets:
                for x in (t.elts if isinstance(t, (ast.Tuple, ast.List)) else [t]):
                    if isinstance(x, ast.Name):
                        assigned.setdefault(x.id, []).append(n.value if not isinstance(t, (ast.Tuple, ast.List)) else None)
        elif isinstance(n, ast.AnnAssign) and isinstance(n.target, ast.Name):
            assigned.setdefault(n.target.id, []).append(n.value)
        elif isinstance(n, ast.AugAssign) and isinstance(n.target, ast.Name):
            assigned.setdefault(n.target.id, []).append(n.value)
        elif isinstance(n, (ast.For, ast.comprehension)):
            tgt = n.target
            for x in ast.walk(tgt):
                if isinstance(x, ast.Name):
                    # iterating a container built in this function yields the rows / items put into it here
                    assigned.setdefault(x.id, []).append(('iter', n.iter) if isinstance(n.iter, ast.Name) and isinstance(tgt, ast.Name) else None)
        elif isinstance(n, ast.With):
            for it in n.items:
                if it.optional_vars is not None:
                    for x in ast.walk(it.optional_vars):
                        if isinstance(x, ast.Name):
                            assigned.setdefault(x.id, []).append(it.context_expr)
    is_init = fn.name == '__init__'
    is_setter = any(isinstance(d, ast.Attribute) and d.attr == 'setter' for d in fn.decorator_list)

    qual = (cls_name + '.' if cls_name else '') + fn.name

    def fresh_root(name, depth=0):
        if name in params and name not in ('self', 'cls'):
            return (qual, name) in CALLER_FRESH
        if name == 'self':
            return is_init or is_setter or (cls_name in EPHEMERAL)
        if name == 'cls':
            return False
        vals = assigned.get(name)
        if not vals:
            return False          # a global or a closure variable
        def ok(v):
            if v is None:
                return False
            if isinstance(v, tuple) and v[0] == 'iter':
                return depth < 3 and v[1].id != name and fresh_root(v[1].id, depth + 1)
            return is_fresh_expr(v)
        return all(ok(v) for v in vals)

    def classify(target_expr, via_method, attr_store=False):
        root, steps = root_and_path(target_expr)
        if root is None:
            return False
        if not fresh_root(root):
            return False
        # the object that is mutated is reached from the fresh root by [steps]
        if not steps:
            return True
        if root == 'self':
            return len(steps) <= 1 and steps[0].startswith('attr:')
        if attr_store:
            return False          # an attribute of an ELEMENT of a local container: the element may be shared
        # containers of containers created in the function: subscripts only
        return all(s == 'sub' for s in steps) and len(steps) <= 2

    out = []
    for n in ast.walk(fn):
        if isinstance(n, ast.Call) and isinstance(n.func, ast.Attribute):
            for (q, pname) in CALLER_FRESH:
                if n.func.attr == q.split('.')[-1]:
                    arg = next((k.value for k in n.keywords if k.arg == pname), None)
                    okk = isinstance(arg, ast.Name) and fresh_root(arg.id)
                    out.append((n.lineno, f'call {q}({pname}={ast.unparse(arg) if arg is not None else "?"})', bool(okk)))
        targets = []
        if isinstance(n, ast.Assign):
            for t in n.targets:
                targets += (t.elts if isinstance(t, (ast.Tuple, ast.List)) else [t])
        elif isinstance(n, (ast.AugAssign, ast.AnnAssign)):
            targets = [n.target]
        elif isinstance(n, ast.Delete):
            targets = n.targets
        for t in targets:
            if isinstance(t, (ast.Attribute, ast.Subscript)):
                out.append((n.lineno, ast.unparse(t), classify(t.value, False, attr_store=isinstance(t, ast.Attribute))))
        if isinstance(n, ast.Call):
            f = n.func
            if isinstance(f, ast.Attribute) and f.attr in MUTATORS:
                out.append((n.lineno, ast.unparse(f) + '(...)', classify(f.value, True)))
            if isinstance(f, ast.Name) and f.id in ('setattr', 'delattr') and n.args:
                out.append((n.lineno, f'{f.id}({ast.unparse(n.args[0])}, ...)', classify(n.args[0], True)))
    return out


def cstr(s):
    return '"' + s.replace('"', '""').replace('\n', ' ') + '"'


def gen_effects(repo):
    sites = []
    nfuncs = 0
    for path, cls, funcs in SCOPES:
        full = os.path.join(repo, path)
        if not os.path.exists(full):
            raise EffectsError(f'{path} not found')
        tree = ast.parse(open(full, encoding='utf-8').read(), filename=path)
        bodies = []
        if cls is None:
            bodies.append((None, tree.body))
            if funcs is None:
                for n in tree.body:
                    if isinstance(n, ast.ClassDef):
                        bodies.append((n.name, n.body))
        else:
            found = [n for n in tree.body if isinstance(n, ast.ClassDef) and n.name == cls]
            if not found:
                raise EffectsError(f'class {cls} not found in {path}')
            bodies.append((cls, found[0].body))
        seen = set()
        for cname, body in bodies:
            for n in body:
                if isinstance(n, (ast.FunctionDef, ast.AsyncFunctionDef)) and (funcs is None or n.name in funcs):
                    seen.add(n.name)
                    nfuncs += 1
                    for line, tgt, fresh in analyse_function(n, cname, path):
                        sites.append((path, (cname + '.' if cname else '') + n.name, line, tgt, fresh))
        if funcs is not None:
            missing = [f for f in funcs if f not in seen]
            if missing:
                raise EffectsError(f'{path}: functions {missing} of the read-only API not found')
    o = ['(* GENERATED by tools/translate_effects.py from /repo -- do not edit *)\n'
         'From Coq Require Import List String Bool.\nImport ListNotations.\nOpen Scope string_scope.\n\n'
         'Record store_site := { ss_file : string; ss_func : string; ss_line : nat; ss_target : string; ss_fresh : bool }.\n']
    o.append(f'Definition readonly_functions_analysed : nat := {nfuncs}.\n')
    o.append('Definition readonly_store_sites : list store_site :=\n  [' + ';\n   '.join(
        f'{{| ss_file := {cstr(p)}; ss_func := {cstr(f)}; ss_line := {ln}; ss_target := {cstr(t)}; ss_fresh := {"true" if fr else "false"} |}}'
        for p, f, ln, t, fr in sites) + '].\n')
    return '\n'.join(o)


if __name__ == '__main__':
    import sys
    print(gen_effects(sys.argv[1] if len(sys.argv) > 1 else '/repo'))
