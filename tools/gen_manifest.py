#!/usr/bin/env python3
"""Regenerate MANIFEST.json from harness/registry.py (single source of truth for what is claimed)."""
import json, os, sys
sys.path.insert(0, '/verif')
from harness.registry import CHECKS, NOT_YET

props = [json.loads(l) for l in open('/verif/properties.jsonl')]
ids = [p['id'] for p in props]
checks = []
for pid in ids:
    if pid not in CHECKS:
        continue
    c = CHECKS[pid]
    checks.append({
        'property_id': pid,
        'quick_cmd': f'bin/check {pid} quick',
        'thorough_cmd': f'bin/check {pid} thorough',
        'evidence_file': f'/verif/evidence/{pid}.json',
        'replay_cmd_template': f'bin/check {pid} --replay {{path}}',
        'engine': 'coq-model',
        'level_claimed': {'category': 'proof', 'text': c['text'], 'design_ref': c.get('design_ref', f'DESIGN.md section 4, {pid}')},
        'level_note': c['note'],
        'technique': c['technique'],
    })
na = [{'property_id': pid, 'reason': NOT_YET.get(pid, 'check not built yet; see DESIGN.md section 8 staging')}
      for pid in ids if pid not in CHECKS]
m = {
    'version': 1,
    'setup_cmd': 'make -C /verif setup',
    'hooks': {
        'guard': 'KERNPY_VERIF',
        'enable': 'no hooks are needed: every observation goes through the public python API of the working tree (PYTHONPATH=/repo)',
        'baseline_off_cmd': '/venv/bin/python /verif/tools/baseline_check.py',
        'source_commits': [],
        'add_only': True,
    },
    'engines': [{
        'name': 'coq-model',
        'path': '/verif/coq',
        'serves_properties': [c['property_id'] for c in checks],
        'kind_free_text': 'Coq 8.16.1 development: tables regenerated from /repo by tools/translate.py (coq/gen), '
                          'hand-written executable Gallina model (coq/model), proofs (coq/proofs), one theorem file per '
                          'property (coq/props); model extracted to OCaml (bin/modelrun) and run against kernpy by harness/*.py',
    }],
    'checks': checks,
    'notes': 'All checks share bin/check; each run regenerates coq/gen from /repo, re-checks coq/props/<id>.vo, rebuilds the '
             'extracted model, runs the correspondence and the property monitors, and writes evidence/<id>.json. '
             'Known findings: /verif/KNOWN_FINDINGS.json.',
    'not_applicable': na,
}
json.dump(m, open('/verif/MANIFEST.json', 'w'), indent=1)
print(f'{len(checks)} checks, {len(na)} not claimed')
