#!/bin/bash
# tools/try_seed.sh <prop id> <worktree> [extra props to run ...]
# 1. confirm the seed in its worktree: demo exits 1 with the change, 0 without; pinned tests still pass with the change
# 2. apply the patch to /repo, run the checks, restore /repo
pid=$1; wt=$2; shift 2; extra="$@"
set -u
cd $wt || exit 2
if [ "${PHASE:-all}" != "checks" ]; then
echo "== demo with the change"; PYTHONPATH=$wt /venv/bin/python SEED/demo.py > /tmp/seed_demo_with_$pid.txt 2>&1; w=$?; tail -n 3 /tmp/seed_demo_with_$pid.txt; echo "exit $w"
git -C $wt apply -R SEED/patch.diff || { echo "cannot reverse patch"; exit 2; }
echo "== demo without the change"; PYTHONPATH=$wt /venv/bin/python SEED/demo.py > /tmp/seed_demo_without_$pid.txt 2>&1; wo=$?; tail -n 2 /tmp/seed_demo_without_$pid.txt; echo "exit $wo"
git -C $wt apply SEED/patch.diff
echo "== pinned suite with the change"
/venv/bin/python - $wt <<'PY'
import json, subprocess, sys, tempfile, os, xml.etree.ElementTree as ET
wt=sys.argv[1]
base = json.load(open('/root/.vp/BASELINE.json'))
with tempfile.TemporaryDirectory() as td:
    j = os.path.join(td, 'j.xml')
    subprocess.run(['/venv/bin/python', '-m', 'pytest', '-ra', '-q', '-p', 'no:cacheprovider', '--timeout=900',
                    '--continue-on-collection-errors', '--junitxml=' + j], cwd=wt, stdout=subprocess.DEVNULL, stderr=subprocess.DEVNULL)
    passed = set()
    for tc in ET.parse(j).getroot().iter('testcase'):
        if not any(ch.tag in ('failure', 'error', 'skipped') for ch in tc):
            passed.add(f"{tc.get('classname')}::{tc.get('name')}")
missing = [t for t in base['stable_pass'] if t not in passed]
print(f"stable_pass={len(base['stable_pass'])} passed_now={len(passed)} missing={len(missing)}", missing[:3])
PY
fi
[ "${PHASE:-all}" = "confirm" ] && exit 0
echo "== checks on /repo with the patch applied"
git -C /repo status --short | grep -q . && { echo "/repo not clean"; exit 2; }
git -C /repo apply $wt/SEED/patch.diff || { echo "patch does not apply to /repo"; exit 2; }
cd /verif
for p in $pid $extra; do
  out=$(bin/check $p quick 2>&1); code=$?
  echo "$out" | grep -E "^\[$p\]|^VIOLATION" | cut -c1-200 | head -n 4
  echo "   -> exit $code"
done
git -C /repo checkout -- .
/venv/bin/python tools/translate.py > /dev/null
echo "== /repo restored: $(git -C /repo status --short | wc -l) modified files"
# the evidence files were rewritten by checks on the CHANGED tree: put the committed ones back (never commit those)
git -C /verif checkout -- evidence 2>/dev/null || true
