#!/bin/bash
# tools/replay_seeds.sh [seed ids ...] - apply every kept seeded change (seeded/<id>/patch.diff) to the repository named by
# KERNPY_VERIF_REPO (default /repo; use a scratch copy!), run the quick check of the property it breaks and report whether
# it is still caught (exit 1 + VIOLATION line); the repository is restored after each seed.  Regression test of the
# machinery itself: generator changes must not lose earlier catches.
cd "$(dirname "$0")/.."
REPO=${KERNPY_VERIF_REPO:-/repo}
ids="$@"; [ -z "$ids" ] && ids=$(ls seeded | sort)
lost=0; n=0
for id in $ids; do
  d=seeded/$id; [ -f $d/patch.diff ] || continue
  prop=$(/venv/bin/python -c "import json;print(json.load(open('$d/meta.json'))['breaks_property'])")
  git -C $REPO status --short | grep -q . && { echo "$REPO not clean"; exit 2; }
  git -C $REPO apply $PWD/$d/patch.diff || { echo "$id: patch does not apply"; lost=$((lost+1)); continue; }
  out=$(bin/check $prop quick 2>&1); code=$?
  git -C $REPO checkout -- . ; git -C $REPO clean -fdq
  n=$((n+1))
  if [ $code -eq 1 ] && echo "$out" | grep -q "^VIOLATION property=$prop"; then
    kind=input; echo "$out" | grep "^VIOLATION" | grep -vq "no-failing-input-found" || kind=obligation-only
    echo "$id: caught ($kind)"
  else
    echo "$id: NOT CAUGHT (exit $code)"; lost=$((lost+1))
  fi
done
echo "replayed $n seeds, $lost not caught"
[ $lost -eq 0 ]
