# /verif build: everything from files on disk, no network.
SHELL := /bin/bash
COQMK := $(MAKE) --no-print-directory -C coq -f Makefile.coq
.PHONY: setup gen coq modelrun clean gate

setup: gen coq modelrun gate

gen:
	/venv/bin/python tools/translate.py

coq/Makefile.coq: coq/_CoqProject
	cd coq && coq_makefile -f _CoqProject -o Makefile.coq

coq: gen coq/Makefile.coq
	timeout 3000 $(COQMK) -j16

modelrun: coq/Makefile.coq
	@timeout 1800 $(COQMK) -j8 model/Run.vo
	@if [ ! -x bin/modelrun ] || [ coq/model/Run.vo -nt bin/modelrun ] || [ ocaml/driver.ml -nt bin/modelrun ] \
	    || [ coq/extract/Extract.v -nt bin/modelrun ]; then \
	  mkdir -p build/ocaml bin && cd build/ocaml && rm -f modelrun_core.* && \
	  timeout 600 coqc -R $(CURDIR)/coq KV $(CURDIR)/coq/extract/Extract.v > extract.log 2>&1 && \
	  cp $(CURDIR)/ocaml/driver.ml . && \
	  timeout 600 ocamlfind ocamlopt -w -a modelrun_core.mli modelrun_core.ml driver.ml -o $(CURDIR)/bin/modelrun.new && \
	  mv $(CURDIR)/bin/modelrun.new $(CURDIR)/bin/modelrun ; \
	fi

# no Admitted / Axiom / ... anywhere in the development
gate:
	@! grep -rnE '\b(Admitted|admit|Axiom|Parameter|Conjecture|Unset Guard Checking|bypass_check|Admit Obligations)\b' coq --include=*.v \
	  | grep -v '^coq/gen/.*translator could not' || (echo "forbidden construct found"; exit 1)

clean:
	rm -rf build bin/modelrun coq/Makefile.coq coq/Makefile.coq.conf coq/.Makefile.coq.d
	find coq -name '*.vo' -o -name '*.vok' -o -name '*.vos' -o -name '*.glob' -o -name '.*.aux' | xargs rm -f
